"""C20 - ARM/RISC-V build attributes and ARM unwind tables (.ARM.exidx/.ARM.extab) are decoded exactly.

Two case kinds:

  k='attr'   a build-attributes section ('A' format, ARM IHI 0045 section 3.2 / RISC-V psABI "Attributes") written
             by the encoder below, embedded with vf/enc/elf.py, read back through every public consumption pattern
             of ARMAttributesSection / RISCVAttributesSection.
  k='exidx'  an ARM ET_EXEC/ET_DYN image with .ARM.exidx / .ARM.extab written below (ARM IHI 0038B sections 5, 6,
             10), read back through ELFFile.get_ehabi_infos() -> EHABIInfo.get_entry(); byte-code disassembly is
             compared with `disasm` (IHI 0038B table 4, text format of llvm-readobj's ARMEHABIPrinter.h which the
             library's decoder cites).

`python -m vf.checks.c20 referee` compares `disasm` and the exidx encoder with `llvm-readelf -u` on the whole
deterministic sweep (development aid; also run on shard 0 of the thorough tier when the tool exists).
"""
import io
import os
import re
import struct
import shutil
import subprocess
import tempfile

from vf.enc import elf as W
from vf.enc import leb
from vf.choose import RndChooser, composite_from

ID = 'C20'
RULE = ('attr: 1..5 vendor subsections x 1..4 File/Section/Symbol sub-subsections (number lists, non-minimal ULEBs) x '
        '0..20 attributes over the library ARM / RISC-V tag tables (uleb of any length incl. non-minimal, NTBS, '
        'Tag_compatibility, nested Tag_also_compatible_with), EM_ARM ELF32 / EM_RISCV ELF32+64, both byte orders, written '
        'by an own encoder; read back lock-step AND through one further consumption pattern per case (list-first at each '
        'level, num_*/subsections/... properties, vendor/scope/tag filters, interleaved foreign stream users at each level, '
        'repeated iteration). exidx: ET_EXEC/ET_DYN ARM images, 0..60 index entries (1..2 index sections, extab before or '
        'after), every entry kind (cannot-unwind, inline compact, table compact 0/1/2 with 0..6 extra words, generic, four '
        'corrupt forms), prel31 displacements over all sign/bit-26/bit-30 classes, byte-code from complete opcodes over the '
        'full opcode space; deterministic sweep: all 256 first bytes, every two-byte opcode x every second byte, 0xb2 with '
        'ULEB operands of 1..4 bytes x successor classes, both byte orders. Non-trivial: attr case with >=2 subsections or '
        '>=2 sub-subsections in one subsection; exidx case with a displacement whose bits 26 and 30 differ or byte-code with '
        'a multi-byte operand. Distinct by SHA-1 of (encoded file, consumption pattern).')
N = {'quick': 10000, 'thorough': 300000}
ASSUMPTIONS = [
    'only tags present in the library tag tables are generated (unknown tags are rejected by design); the value kind of a tag '
    'is taken from a hand-written table (ARM IHI 0045: 4,5,67 NTBS; 32 uleb+NTBS; 65 nested; RISC-V psABI: 5 NTBS; rest uleb)',
    'Tag_also_compatible_with nests a uleb-valued tag (value + NUL) or an NTBS-valued tag (its own NUL terminates); other nestings are '
    'not generated; the nested bytes contain no NUL before the terminator (value >= 1, minimal ulebs) because the value is an NTBS',
    'NTBS values and vendor names are valid UTF-8 without NUL',
    'byte-code sequences consist of complete opcodes and are padded with 0xb0 (finish); 0xb2 operands are 1..4 ULEB bytes',
    'disassembly text follows llvm-readobj ARMEHABIPrinter.h (cited by elftools/ehabi/decoder.py), incl. its 32-register mask '
    'truncation for register ranges running past 31; IHI 0038B opcode assignment (0xb4..0xb7 spare)',
    'place of a prel31 word = its file offset (as EHABIInfo defines); images keep sh_addr == sh_offset so that the address '
    'reading agrees; results are compared modulo 2**64 (arm_expand_prel31 documents uint64)',
    'corrupt inline entries are those binutils and the library both reject: bits 30..28 of the second word non-zero or a reserved '
    'model index 3..15; an inline word naming model 1 or 2 is not generated (tools disagree on it)',
    'eh_table_offset of generic-personality and corrupt table entries is not constrained (docstring is silent); '
    'index sections have sh_size % 8 == 0',
]

EM_ARM, EM_RISCV = 40, 243
SHT_ATTR = 0x70000003
SHT_EXIDX = 0x70000001
M64 = (1 << 64) - 1


class Runaway(Exception):
    """raised by the counting stream when a library loop does not terminate"""


class CountingStream(io.BytesIO):
    """BytesIO with a deterministic read budget: turns a non-terminating library loop into an exception."""

    def __init__(self, data):
        super().__init__(data)
        self.budget = 20000 + 40 * len(data)
        self.nreads = 0

    def read(self, *a):
        self.nreads += 1
        if self.nreads > self.budget:
            raise Runaway('more than %d reads on a %d-byte file' % (self.budget, len(self.getvalue())))
        return super().read(*a)


_lib = {}



def arm_flags(case, le):
    """e_flags of the ARM images: EABI version 5 plus, decided by the content of the case, the flags that describe the *code* and say nothing
    about how tables are stored - BE8 (big-endian data, little-endian instructions: how big-endian ARMv6+ images are linked), LE8, the
    float ABI.  Attribute sections and unwind tables are data in the byte order of the file whatever these flags are."""
    import zlib
    h = zlib.crc32(repr(sorted((k, repr(v)) for k, v in case.items())).encode())
    f = 0x5000000
    if h & 1:
        f |= 0x00400000 if le else 0x00800000
    if h & 6 == 2:
        f |= 0x400
    elif h & 6 == 4:
        f |= 0x200
    return f


def lib():
    if not _lib:
        from elftools.elf.elffile import ELFFile
        from elftools.elf import enums
        from elftools.elf import sections
        from elftools.ehabi import ehabiinfo
        _lib['ELFFile'] = ELFFile
        _lib['sections'] = sections
        _lib['eh'] = ehabiinfo
        _lib['arm'] = {v: k for k, v in enums.ENUM_ATTR_TAG_ARM.items() if isinstance(v, int)}
        _lib['riscv'] = {v: k for k, v in enums.ENUM_ATTR_TAG_RISCV.items() if isinstance(v, int)}
    return _lib


# ===========================================================================
# build attributes: tables, encoder, expected model
# ===========================================================================

# value kinds by tag number, written from the ABI documents (not from sections.py)
ARM_NTBS = {4, 5, 67}
ARM_COMPAT = 32
ARM_ALSO = 65
ARM_ULEB = ([6, 7, 8, 9, 10, 11, 12, 13, 14, 15, 16, 17, 18, 19, 20, 21, 22, 23, 24, 25, 26, 27, 28, 29, 30, 31,
             34, 36, 38, 42, 44, 46, 48, 50, 52, 64, 66, 68, 70, 72, 74, 76])
RISCV_NTBS = {5}
RISCV_ULEB = [4, 6, 8, 10, 12, 14, 16]
SCOPE_NAME = {1: 'TAG_FILE', 2: 'TAG_SECTION', 3: 'TAG_SYMBOL'}

PATTERNS = ['lockstep', 'list_subsec', 'list_subsubsec', 'list_all', 'props', 'filter_vendor', 'filter_scope',
            'filter_tag', 'interleave_subsec', 'interleave_subsubsec', 'interleave_attr', 'interleave_all', 'repeat']
PATTERN_CLASS = {'lockstep': 'lockstep', 'list_subsec': 'skipahead', 'list_subsubsec': 'skipahead', 'list_all': 'skipahead',
                 'props': 'skipahead', 'filter_vendor': 'skipahead', 'filter_scope': 'skipahead', 'filter_tag': 'filter_tag',
                 'interleave_subsec': 'interleave', 'interleave_subsubsec': 'interleave', 'interleave_attr': 'interleave',
                 'interleave_all': 'interleave', 'repeat': 'repeat'}


def tag_kind(arch, t):
    if arch == 'arm':
        if t in ARM_NTBS:
            return 's'
        if t == ARM_COMPAT:
            return 'c'
        if t == ARM_ALSO:
            return 'a'
        return 'u'
    return 's' if t in RISCV_NTBS else 'u'


def enc_attr(arch, a):
    """attribute dict -> bytes.  a = {'t': tag, 'tp': pad of the tag uleb, 'v','vp': uleb value/pad, 's': str, 'n': nested}"""
    out = leb.uleb(a['t'], a.get('tp', 0))
    k = tag_kind(arch, a['t'])
    if k == 'u':
        out += leb.uleb(a['v'], a.get('vp', 0))
    elif k == 's':
        out += a['s'].encode('utf-8') + b'\0'
    elif k == 'c':
        out += leb.uleb(a['v'], a.get('vp', 0)) + a['s'].encode('utf-8') + b'\0'
    else:
        n = a['n']
        nk = tag_kind(arch, n['t'])
        assert nk in ('u', 's')
        assert b'\0' not in enc_attr(arch, n)[:-1 if nk == 's' else None], 'NUL inside the nested NTBS'
        out += enc_attr(arch, n)
        if nk == 'u':
            out += b'\0'        # terminator of the enclosing NTBS; an NTBS-valued nested tag ends it itself
    return out


def exp_attr(arch, a, names):
    k = tag_kind(arch, a['t'])
    nm = names[a['t']]
    if k == 'u':
        return [nm, a['v'], None]
    if k == 's':
        return [nm, a['s'], None]
    if k == 'c':
        return [nm, a['v'], a['s']]
    n = a['n']
    return [nm, ['nested'] + exp_attr(arch, n, names), None]


def enc_subsubsec(arch, le, ss):
    body = b''
    if ss['scope'] != 1:
        for v, p in ss['nums']:
            assert v > 0
            body += leb.uleb(v, p)
        body += leb.uleb(0, ss.get('zp', 0))
    for a in ss['attrs']:
        body += enc_attr(arch, a)
    tag = leb.uleb(ss['scope'], ss.get('sp', 0))
    size = len(tag) + 4 + len(body)
    return tag + struct.pack(W.E(le) + 'I', size) + body, size


def enc_attr_section(case):
    """-> (section bytes, expected view [[length, vendor, [[scope name, size, nums|None, [attr...]]...]]...])"""
    arch, le = case['arch'], case['le']
    names = lib()[arch]
    data = b'A'
    exp = []
    for sub in case['subs']:
        body = b''
        e_ss = []
        for ss in sub['subsubs']:
            b, size = enc_subsubsec(arch, le, ss)
            body += b
            e_ss.append([SCOPE_NAME[ss['scope']], size, None if ss['scope'] == 1 else [v for v, _ in ss['nums']],
                         [exp_attr(arch, a, names) for a in ss['attrs']]])
        vend = sub['vendor'].encode('utf-8') + b'\0'
        length = 4 + len(vend) + len(body)
        data += struct.pack(W.E(le) + 'I', length) + vend + body
        exp.append([length, sub['vendor'], e_ss])
    return data, exp


def build_attr_elf(case):
    arch = case['arch']
    sec, exp = enc_attr_section(case)
    cls = case['cls']
    filler = bytes((i * 7 + 3) & 0xff for i in range(case.get('pad', 16)))
    secs = [{'name': '', 'sh_type': 0},
            {'name': '.text', 'sh_type': 1, 'sh_flags': 6, 'data': filler, 'sh_addralign': 1},
            {'name': '.ARM.attributes' if arch == 'arm' else '.riscv.attributes', 'sh_type': SHT_ATTR, 'data': sec,
             'sh_addralign': 1},
            {'name': '.shstrtab', 'sh_type': 3, 'data': b''}]
    order = [['ph', 1, 2, 3, 'sh'], [2, 1, 3, 'sh', 'ph'], ['sh', 3, 1, 2, 'ph'], [3, 2, 'sh', 1]][case.get('order', 0)]
    m = {'cls': cls, 'le': case['le'], 'e_type': case.get('et', 1), 'e_machine': EM_ARM if arch == 'arm' else EM_RISCV,
         'sections': secs, 'shstrndx': 3, 'order': order, 'tail': case.get('tail', 0),
         'e_flags': arm_flags(case, case['le']) if arch == 'arm' else 0}
    data, R = W.build(m)
    return data, R, exp


# ---- reading through the library ------------------------------------------------------------

def view_attr(a):
    v = a.value
    if not isinstance(v, (int, str, bytes)) and hasattr(v, 'tag'):
        v = ['nested', v.tag, v.value, v.extra]
    return [a.tag, v, a.extra]


class Walk:
    """Runs one consumption pattern; records what was seen so far plus where an exception hit."""

    def __init__(self, data, case):
        self.stream = CountingStream(data)
        self.elf = lib()['ELFFile'](self.stream)
        self.sec = self.elf.get_section(2)
        self.subs = []
        self.level = 'section'
        self.exc = None
        self.counts = []        # (what, reported, reference) for the props pattern
        self.case = case

    def disturb(self):
        """another user of the shared stream"""
        self.elf.get_section(0)
        self.elf.get_section(1).data()

    # helpers: every `next` on a library generator happens with self.level set
    def _iter(self, gen, level, disturb=False):
        it = iter(gen)
        while True:
            self.level = level
            if disturb:
                self.disturb()
            try:
                x = next(it)
            except StopIteration:
                return
            if disturb:
                self.disturb()
            yield x

    def _sub_hdr(self, s):
        S = [s['length'], s['vendor_name'], []]
        return S

    def _ss_hdr(self, ss):
        h = ss.header
        return [h.tag, h.value, h.extra, []]

    def descend_sub(self, s, S, d_ss=False, d_a=False, scope=None, tag=None):
        gen = s.iter_subsubsections() if scope is None else s.iter_subsubsections(scope=scope)
        for ss in self._iter(gen, 'subsubsec', d_ss):
            SS = self._ss_hdr(ss)
            S[2].append(SS)
            self.descend_ss(ss, SS, d_a, tag)

    def descend_ss(self, ss, SS, d_a=False, tag=None):
        gen = ss.iter_attributes() if tag is None else ss.iter_attributes(tag=tag)
        for a in self._iter(gen, 'attr', d_a):
            SS[3].append(view_attr(a))

    def lockstep(self, d_s=False, d_ss=False, d_a=False, vendor=None, scope=None, tag=None):
        gen = self.sec.iter_subsections() if vendor is None else self.sec.iter_subsections(vendor_name=vendor)
        for s in self._iter(gen, 'subsec', d_s):
            S = self._sub_hdr(s)
            self.subs.append(S)
            self.descend_sub(s, S, d_ss, d_a, scope, tag)

    def run(self, pattern):
        c = self.case
        try:
            if pattern == 'lockstep':
                self.lockstep()
            elif pattern == 'repeat':
                self.lockstep()
                self.subs = []
                self.lockstep()
            elif pattern == 'list_subsec':
                self.level = 'subsec'
                subs = list(self.sec.iter_subsections())
                self.subs = [self._sub_hdr(s) for s in subs]
                idx = list(range(len(subs)))
                if c.get('rev'):
                    idx.reverse()
                for i in idx:
                    self.descend_sub(subs[i], self.subs[i])
            elif pattern == 'list_subsubsec':
                for s in self._iter(self.sec.iter_subsections(), 'subsec'):
                    S = self._sub_hdr(s)
                    self.subs.append(S)
                    self.level = 'subsubsec'
                    sss = list(s.iter_subsubsections())
                    S[2] = [self._ss_hdr(ss) for ss in sss]
                    idx = list(range(len(sss)))
                    if c.get('rev'):
                        idx.reverse()
                    for i in idx:
                        self.descend_ss(sss[i], S[2][i])
            elif pattern == 'list_all':
                self.level = 'subsec'
                subs = list(self.sec.iter_subsections())
                self.subs = [self._sub_hdr(s) for s in subs]
                allss = []
                for s, S in zip(subs, self.subs):
                    self.level = 'subsubsec'
                    sss = list(s.iter_subsubsections())
                    S[2] = [self._ss_hdr(ss) for ss in sss]
                    allss += list(zip(sss, S[2]))
                if c.get('rev'):
                    allss.reverse()
                for ss, SS in allss:
                    self.level = 'attr'
                    SS[3] = [view_attr(a) for a in list(ss.iter_attributes())]
            elif pattern == 'props':
                self.level = 'subsec'
                n = self.sec.num_subsections
                subs = self.sec.subsections
                self.counts.append(('num_subsections', n, len(subs)))
                self.subs = [self._sub_hdr(s) for s in subs]
                for s, S in zip(subs, self.subs):
                    self.level = 'subsubsec'
                    m = s.num_subsubsections
                    sss = s.subsubsections
                    self.counts.append(('num_subsubsections', m, len(sss)))
                    S[2] = [self._ss_hdr(ss) for ss in sss]
                    for ss, SS in zip(sss, S[2]):
                        self.level = 'attr'
                        k = ss.num_attributes
                        al = ss.attributes
                        # documented: the header counts as the first attribute
                        self.counts.append(('num_attributes', k, len(al)))
                        if not al or al[0] is not ss.header:
                            self.counts.append(('attributes[0]_is_header', 0, 1))
                        SS[3] = [view_attr(a) for a in al[1:]]
            elif pattern == 'filter_vendor':
                self.lockstep(vendor=c['fvendor'])
            elif pattern == 'filter_scope':
                self.lockstep(scope=SCOPE_NAME[c['fscope']])
            elif pattern == 'filter_tag':
                self.lockstep(tag=lib()[c['arch']][c['ftag']])
            elif pattern == 'interleave_subsec':
                self.lockstep(d_s=True)
            elif pattern == 'interleave_subsubsec':
                self.lockstep(d_ss=True)
            elif pattern == 'interleave_attr':
                self.lockstep(d_a=True)
            elif pattern == 'interleave_all':
                self.lockstep(True, True, True)
            else:
                raise AssertionError(pattern)
        except AssertionError:
            raise
        except Exception as e:  # noqa - any library exception is an observation
            self.exc = e
        return self


def filtered_expectation(case, exp, pattern):
    names = lib()[case['arch']]
    if pattern == 'filter_vendor':
        return [S for S in exp if S[1] == case['fvendor']]
    if pattern == 'filter_scope':
        return [[S[0], S[1], [SS for SS in S[2] if SS[0] == SCOPE_NAME[case['fscope']]]] for S in exp]
    if pattern == 'filter_tag':
        nm = names[case['ftag']]
        return [[S[0], S[1], [[SS[0], SS[1], SS[2], [a for a in SS[3] if a[0] == nm]] for SS in S[2]]] for S in exp]
    return exp


def _kind_of_value(a):
    if isinstance(a[1], list):
        return 'also'
    if a[2] is not None:
        return 'compat'
    return 'ntbs' if isinstance(a[1], str) else 'uleb'


def first_divergence(exp, got):
    """-> None or (level, field, text)."""
    for i in range(max(len(exp), len(got))):
        if i >= len(got):
            return ('subsec', 'missing', 'subsection #%d missing (expected %r)' % (i, exp[i][:2]))
        if i >= len(exp):
            return ('subsec', 'surplus', 'surplus subsection #%d: %r' % (i, got[i][:2]))
        E_, G = exp[i], got[i]
        if G[0] != E_[0]:
            return ('subsec', 'length', 'subsection #%d length expected %r got %r' % (i, E_[0], G[0]))
        if G[1] != E_[1]:
            return ('subsec', 'vendor_name', 'subsection #%d vendor expected %r got %r' % (i, E_[1], G[1]))
        for j in range(max(len(E_[2]), len(G[2]))):
            w = 'subsection #%d sub-subsection #%d' % (i, j)
            if j >= len(G[2]):
                return ('subsubsec', 'missing', '%s missing (expected %r)' % (w, E_[2][j][:3]))
            if j >= len(E_[2]):
                return ('subsubsec', 'surplus', '%s surplus: %r' % (w, G[2][j][:3]))
            ES, GS = E_[2][j], G[2][j]
            for f, nm in ((0, 'tag'), (1, 'size'), (2, 'numbers')):
                if GS[f] != ES[f]:
                    return ('subsubsec', nm, '%s header %s expected %r got %r' % (w, nm, ES[f], GS[f]))
            for k in range(max(len(ES[3]), len(GS[3]))):
                w2 = '%s attribute #%d' % (w, k)
                if k >= len(GS[3]):
                    return ('attr', 'missing', '%s missing (expected %r)' % (w2, ES[3][k]))
                if k >= len(ES[3]):
                    return ('attr', 'surplus', '%s surplus: %r' % (w2, GS[3][k]))
                ea, ga = ES[3][k], GS[3][k]
                kind = _kind_of_value(ea)
                if ga[0] != ea[0]:
                    return ('attr', 'tag|kind=%s' % kind, '%s tag expected %r got %r' % (w2, ea[0], ga[0]))
                if ga[1] != ea[1] or type(ga[1]) is not type(ea[1]):
                    return ('attr', 'value|kind=%s' % kind, '%s (%s) value expected %r got %r' % (w2, ea[0], ea[1], ga[1]))
                if ga[2] != ea[2]:
                    return ('attr', 'extra|kind=%s' % kind, '%s (%s) extra expected %r got %r' % (w2, ea[0], ea[2], ga[2]))
    return None


def run_attr(ctx, case):
    data, R, exp = build_attr_elf(case)
    pattern = case['pattern']
    nsub = len(case['subs'])
    maxss = max(len(s['subsubs']) for s in case['subs'])
    nontrivial = nsub >= 2 or maxss >= 2
    ctx.case((data, pattern), nontrivial, {'k': 'attr', 'arch': case['arch'], 'le': case['le'], 'pattern': pattern,
                                           'subsections': nsub, 'max_subsubsections': maxss,
                                           'attributes': sum(len(ss['attrs']) for s in case['subs'] for ss in s['subsubs'])})
    ctx.count('attr.arch.%s.%s.%d' % (case['arch'], 'le' if case['le'] else 'be', case['cls']))
    ctx.count('attr.pattern.%s' % pattern)
    ctx.count('attr.nsub.%d' % min(nsub, 5))
    ctx.count('attr.maxsubsub.%d' % min(maxss, 4))
    for s in case['subs']:
        for ss in s['subsubs']:
            ctx.count('attr.scope.%d' % ss['scope'])
            for a in ss['attrs']:
                k = tag_kind(case['arch'], a['t'])
                ctx.count('attr.kind.%s' % k)
                if k in ('u', 'c') and len(leb.uleb(a['v'], a.get('vp', 0))) >= 2:
                    ctx.count('attr.uleb.multibyte')
                if k in ('u', 'c') and a.get('vp', 0):
                    ctx.count('attr.uleb.nonminimal')
    if nsub >= 2 and PATTERN_CLASS[pattern] != 'lockstep':
        ctx.count('attr.multi_subsec_nonlockstep')

    # 1. class + lock-step reading (the pattern of scripts/readelf.py)
    try:
        w = Walk(data, case)
    except Exception as e:  # noqa
        ctx.fail_exc('attr.open', e, case)
        return
    want_cls = 'ARMAttributesSection' if case['arch'] == 'arm' else 'RISCVAttributesSection'
    if type(w.sec).__name__ != want_cls:
        ctx.fail('attr.section_class|exp=%s' % want_cls, 'section object is %s' % type(w.sec).__name__, case)
        return
    w.run('lockstep')
    d = first_divergence(exp, w.subs)
    if w.exc is not None and (d is None or d[1] == 'missing'):
        ctx.fail_exc('attr.lockstep|level=%s' % w.level, w.exc, case, extra='after reading %r' % (w.subs,))
        return
    if d is not None:
        ctx.fail('attr.lockstep|%s.%s' % (d[0], d[1]), d[2], case)
        return
    if pattern == 'lockstep':
        return

    # 2. the case's own consumption pattern on a fresh ELFFile
    try:
        w2 = Walk(data, case)
    except Exception as e:  # noqa
        ctx.fail_exc('attr.open', e, case)
        return
    w2.run(pattern)
    exp2 = filtered_expectation(case, exp, pattern)
    d = first_divergence(exp2, w2.subs)
    pc = PATTERN_CLASS[pattern]
    if w2.exc is not None and (d is None or d[1] == 'missing'):
        t = type(w2.exc).__name__
        ctx.fail('attr.walk|%s|level=%s' % (pc, w2.level),
                 'pattern %s: %s: %s at level %s after reading %r; expected %r' % (pattern, t, str(w2.exc)[:200], w2.level,
                                                                                 w2.subs, exp2), case)
        return
    if d is not None:
        ctx.fail('attr.walk|%s|level=%s' % (pc, d[0]), 'pattern %s: %s; lock-step reading of the same file is correct' % (pattern, d[2]), case)
        return
    for what, got, ref in w2.counts:
        if got != ref:
            ctx.fail('attr.props|%s' % what, '%s = %r but the list has %r elements' % (what, got, ref), case)


# ---- generator ---------------------------------------------------------------------------------

VENDORS = ['aeabi', 'riscv', 'gnu', 'ARM', 'vendor', '', 'a', 'aeabi', 'Vendoré', 'x' * 40]
STRINGS = ['', 'ARM v7', '7-A', 'rv64i2p0_m2p0_a2p0', 'rv32imac', '2.09', 'cortex-a8', 'é中\U0001f600', 'A', 'z' * 70,
           # long values (RISC-V arch strings list every extension) with multi-byte characters across every plausible read boundary
           'a' + 'é' * 200, 'rv64' + '_zé' * 100, 'b' * 63 + '中' + 'c' * 200, 'd' * 255 + 'é' + 'e' * 300, 'f' * 4095 + '\U0001f600' + 'g']


def gen_uleb_value(ch):
    k = ch.int(0, 9)
    if k <= 3:
        return ch.int(0, 5)
    if k <= 5:
        return ch.int(0, 127)
    if k == 6:
        return ch.choice([127, 128, 16383, 16384, (1 << 21) - 1, 1 << 21, (1 << 28) - 1, 1 << 28, (1 << 32) - 1, 1 << 32,
                          (1 << 63) - 1, 1 << 63, (1 << 64) - 1, 1 << 64, (1 << 70) + 5])
    return ch.int(0, (1 << ch.choice([14, 32, 64, 72])) - 1)


def gen_string(ch):
    if ch.int(0, 3):
        return ch.choice(STRINGS)
    n = ch.int(0, 12)
    alphabet = 'abcXYZ019 _-.+/éß中€\U0001f600\x01\x7f'
    return ''.join(ch.choice(alphabet) for _ in range(n))


def gen_attr(ch, arch, tags, nested_ok=True):
    t = ch.choice(tags)
    a = {'t': t}
    if ch.int(0, 7) == 0:
        a['tp'] = ch.int(1, 3)
    k = tag_kind(arch, t)
    if k in ('u', 'c'):
        a['v'] = gen_uleb_value(ch)
        if ch.int(0, 4) == 0:
            a['vp'] = ch.int(1, 4)
    if k in ('s', 'c'):
        a['s'] = gen_string(ch)
    if k == 'a':
        if not nested_ok:
            return gen_attr(ch, arch, [6], False)
        inner = ch.choice([[6], [6], ARM_ULEB, sorted(ARM_NTBS)])
        inner = [x for x in inner if x in tags] or [6]
        a['n'] = gen_attr(ch, arch, inner, False)
    if not nested_ok:
        # the nested tag/value live inside an NTBS: no NUL byte before the terminator (value >= 1, minimal encodings)
        a.pop('tp', None)
        a.pop('vp', None)
        if 'v' in a and a['v'] == 0:
            a['v'] = 1
    return a


def usable_tags(arch):
    have = lib()[arch]
    if arch == 'arm':
        cand = ARM_ULEB + sorted(ARM_NTBS) + [ARM_COMPAT, ARM_ALSO]
    else:
        cand = RISCV_ULEB + sorted(RISCV_NTBS)
    return [t for t in cand if t in have]


def gen_attr_case(ch, tier, pattern=None, arch=None, nsub=None, nss=None):
    arch = arch or ch.choice(['arm', 'riscv'])
    tags = usable_tags(arch)
    case = {'k': 'attr', 'arch': arch, 'le': ch.bool(), 'cls': 32 if arch == 'arm' else ch.choice([32, 64]),
            'pad': ch.choice([16, 0, 1, 37, 200]), 'order': ch.int(0, 3), 'tail': ch.choice([0, 0, 5]),
            'et': ch.choice([1, 2, 3])}
    nsub = nsub or ch.choice([2, 1, 3, 2, 4, 5])
    subs = []
    for i in range(nsub):
        n2 = nss or ch.choice([1, 2, 1, 3, 2, 4])
        sss = []
        for j in range(n2):
            scope = ch.choice([1, 1, 2, 3])
            ss = {'scope': scope, 'attrs': []}
            na = ch.choice([1, 0, 2, 3, 5, 8, 20])
            # structure is drawn from `ch` (shrinkable); contents from a PRNG seeded by one drawn integer (cheap)
            r = RndChooser(ch.int(0, 0xfffff))
            if r.int(0, 9) == 0:
                ss['sp'] = r.int(1, 2)
            if scope != 1:
                ss['nums'] = [[r.choice([1, 2, 5, 127, 128, 300, 65535, 1 << 20]), r.choice([0, 0, 0, 1, 2])]
                              for _ in range(r.choice([1, 0, 2, 3, 6]))]
                if r.int(0, 5) == 0:
                    ss['zp'] = r.int(1, 2)
            ss['attrs'] = [gen_attr(r, arch, tags) for _ in range(na)]
            sss.append(ss)
        subs.append({'vendor': ch.choice(VENDORS) if ch.int(0, 3) else gen_string(RndChooser(ch.int(0, 0xfffff))), 'subsubs': sss})
    case['subs'] = subs
    case['pattern'] = pattern or ch.choice(PATTERNS)
    p = case['pattern']
    if p in ('list_subsec', 'list_subsubsec', 'list_all'):
        case['rev'] = ch.bool()
    if p == 'filter_vendor':
        case['fvendor'] = subs[ch.int(0, nsub - 1)]['vendor']
    if p == 'filter_scope':
        case['fscope'] = ch.choice([1, 2, 3])
    if p == 'filter_tag':
        alltags = [a['t'] for s in subs for ss in s['subsubs'] for a in ss['attrs']]
        case['ftag'] = ch.choice(alltags) if alltags and ch.int(0, 4) else ch.choice(tags)
    return case


# ===========================================================================
# EHABI: disassembler (IHI 0038B table 4, llvm-readobj text), encoder, expectation
# ===========================================================================

GPR = ('r0', 'r1', 'r2', 'r3', 'r4', 'r5', 'r6', 'r7', 'r8', 'r9', 'r10', 'fp', 'ip', 'sp', 'lr', 'pc')
TWO_BYTE_FIRST = list(range(0x80, 0x90)) + [0xb1, 0xb3, 0xc6, 0xc7, 0xc8, 0xc9]


def _regs(mask, prefix=None):
    mask &= 0xffffffff      # the printer keeps a 32-bit mask
    if prefix is None:
        return '{%s}' % ', '.join(GPR[i] for i in range(16) if mask >> i & 1)
    return '{%s}' % ', '.join('%s%d' % (prefix, i) for i in range(32) if mask >> i & 1)


def _range(start, count):
    return ((1 << (count + 1)) - 1) << start


def op_class(b):
    """spec row of a first byte (also the bucket component)"""
    if b < 0x40:
        return '00xxxxxx'
    if b < 0x80:
        return '01xxxxxx'
    if b < 0x90:
        return '1000iiii_iiiiiiii'
    if b == 0x9d:
        return '10011101'
    if b == 0x9f:
        return '10011111'
    if b < 0xa0:
        return '1001nnnn'
    if b < 0xa8:
        return '10100nnn'
    if b < 0xb0:
        return '10101nnn'
    if b == 0xb0:
        return '10110000'
    if b == 0xb1:
        return '10110001_0000iiii'
    if b == 0xb2:
        return '10110010_uleb128'
    if b == 0xb3:
        return '10110011_sssscccc'
    if b < 0xb8:
        return '101101nn'
    if b < 0xc0:
        return '10111nnn'
    if b < 0xc6:
        return '11000nnn'
    if b == 0xc6:
        return '11000110_sssscccc'
    if b == 0xc7:
        return '11000111_0000iiii'
    if b == 0xc8:
        return '11001000_sssscccc'
    if b == 0xc9:
        return '11001001_sssscccc'
    if b < 0xd0:
        return '11001yyy'
    if b < 0xd8:
        return '11010nnn'
    return '11xxxyyy'


def disasm(code):
    """-> list of (list of ints, text) or None if the last opcode is truncated."""
    out = []
    i, n = 0, len(code)
    while i < n:
        b = code[i]
        c = op_class(b)
        ln = 1
        if c.endswith(('iiii', 'cccc')):
            ln = 2
            if i + 1 >= n:
                return None
            o1 = code[i + 1]
        if c == '00xxxxxx':
            t = 'vsp = vsp + %u' % (((b & 0x3f) << 2) + 4)
        elif c == '01xxxxxx':
            t = 'vsp = vsp - %u' % (((b & 0x3f) << 2) + 4)
        elif c == '1000iiii_iiiiiiii':
            mask = ((b & 0x0f) << 12) | (o1 << 4)
            t = 'pop %s' % _regs(mask) if mask else 'refuse to unwind'
        elif c == '10011101':
            t = 'reserved (ARM MOVrr)'
        elif c == '10011111':
            t = 'reserved (WiMMX MOVrr)'
        elif c == '1001nnnn':
            t = 'vsp = r%u' % (b & 0x0f)
        elif c == '10100nnn':
            t = 'pop %s' % _regs(_range(4, b & 7))
        elif c == '10101nnn':
            t = 'pop %s' % _regs(_range(4, b & 7) | (1 << 14))
        elif c == '10110000':
            t = 'finish'
        elif c == '10110001_0000iiii':
            t = 'spare' if (o1 & 0xf0 or o1 == 0) else 'pop %s' % _regs(o1 & 0x0f)
        elif c == '10110010_uleb128':
            j = i + 1
            v = 0
            sh = 0
            while True:
                if j >= n:
                    return None
                x = code[j]
                j += 1
                v |= (x & 0x7f) << sh
                sh += 7
                if not x & 0x80:
                    break
            ln = j - i
            t = 'vsp = vsp + %u' % (0x204 + (v << 2))
        elif c in ('10110011_sssscccc', '11001001_sssscccc'):
            t = 'pop %s' % _regs(_range(o1 >> 4, o1 & 0x0f), 'd')
        elif c in ('101101nn', '11001yyy', '11xxxyyy'):
            t = 'spare'
        elif c in ('10111nnn', '11010nnn'):
            t = 'pop %s' % _regs(_range(8, b & 7), 'd')
        elif c == '11000nnn':
            t = 'pop %s' % _regs(_range(10, b & 7), 'wR')
        elif c == '11000110_sssscccc':
            t = 'pop %s' % _regs(_range(o1 >> 4, o1 & 0x0f), 'wR')
        elif c == '11000111_0000iiii':
            t = 'spare' if (o1 & 0xf0 or o1 == 0) else 'pop %s' % _regs(o1 & 0x0f, 'wCGR')
        elif c == '11001000_sssscccc':
            t = 'pop %s' % _regs(_range(16 + (o1 >> 4), o1 & 0x0f), 'd')
        else:
            raise AssertionError(c)
        out.append((list(code[i:i + ln]), t))
        i += ln
    return out


TABLE_KINDS = ('t0', 't1', 't2', 'generic', 'bad_table', 'reserved')
ALL_KINDS = ('cant', 'inline', 't0', 't1', 't2', 'generic', 'bad_idx', 'bad_inline', 'bad_table', 'reserved')


def capacity(kind, nwords=0):
    return 3 if kind in ('inline', 't0') else 2 + 4 * nwords


def padded_code(e):
    """complete opcodes padded with 'finish' to the capacity of the entry format"""
    code = bytes(e.get('code', b''))
    if e['kind'] in ('inline', 't0'):
        cap = 3
    else:
        nw = max(e.get('nw', 0), (max(len(code) - 2, 0) + 3) // 4)
        cap = 2 + 4 * nw
    assert len(code) <= cap, 'generator produced byte-code longer than the entry format holds'
    return code + b'\xb0' * (cap - len(code))


def enc_table_chunk(le, e):
    """extab bytes of a table-based entry (first word + extra words + trailing descriptor/LSDA words)"""
    k = e['kind']
    P = W.E(le) + 'I'
    if k == 'generic':
        words = [e['pd'] & 0x7fffffff]
    elif k == 't0':
        c = padded_code(e)
        words = [0x80000000 | c[0] << 16 | c[1] << 8 | c[2]]
    elif k in ('t1', 't2'):
        c = padded_code(e)
        nw = (len(c) - 2) // 4
        words = [0x80000000 | (1 if k == 't1' else 2) << 24 | nw << 16 | c[0] << 8 | c[1]]
        for i in range(nw):
            words.append(int.from_bytes(c[2 + 4 * i:6 + 4 * i], 'big'))
    elif k == 'bad_table':
        assert 1 <= e['bits'] <= 7
        words = [0x80000000 | e['bits'] << 28 | (e.get('low', 0) & 0x0fffffff)]
    elif k == 'reserved':
        assert 3 <= e['bits'] <= 15
        words = [0x80000000 | e['bits'] << 24 | (e.get('low', 0) & 0x00ffffff)]
    else:
        raise AssertionError(k)
    words += [x & 0xffffffff for x in e.get('trail', [])]
    return b''.join(struct.pack(P, x) for x in words)


def build_exidx_elf(case):
    """-> (file bytes, R, expectations per index section [(name, offset, [expected entry dict...])])"""
    le = case['le']
    P = W.E(le) + 'I'
    ents = case['entries']
    n = len(ents)
    split = case.get('split')
    groups = [list(range(n))] if split is None else [list(range(0, split)), list(range(split, n))]
    # table chunks
    chunk_ids = [i for i, e in enumerate(ents) if e['kind'] in TABLE_KINDS]
    if case.get('tab_rev'):
        chunk_ids.reverse()
    chunks = {i: enc_table_chunk(le, ents[i]) for i in chunk_ids}
    lead = b'\0' * (4 * case.get('tab_lead', 0))
    rel = {}
    pos = len(lead)
    for i in chunk_ids:
        rel[i] = pos
        pos += len(chunks[i])
    extab = lead + b''.join(chunks[i] for i in chunk_ids)
    # The handler tables need not all live in the section named .ARM.extab: with -ffunction-sections every text section has its own
    # (.ARM.extab.text.startup, ...), and an index entry only designates a place.  tab_split = k: the chunks from position k on go into a
    # second table section of another name.
    second = None
    tsp = case.get('tab_split')
    if tsp is not None and len(chunk_ids) >= 2:
        k = 1 + tsp % (len(chunk_ids) - 1)
        first_ids, second_ids = chunk_ids[:k], chunk_ids[k:]
        extab = lead + b''.join(chunks[i] for i in first_ids)
        second = b''
        for i in second_ids:
            rel[i] = ('second', len(second))
            second += chunks[i]

    filler = bytes((i * 5 + 1) & 0xff for i in range(case.get('pad', 64)))
    secs = [{'name': '', 'sh_type': 0},
            {'name': '.text', 'sh_type': 1, 'sh_flags': 6, 'data': filler, 'sh_addralign': 4, 'file_align': 4}]
    xidx = []
    for g, idxs in enumerate(groups):
        xidx.append(len(secs))
        # an index table is recognised by its section TYPE; the name only has to begin with .ARM.exidx by convention (linker scripts make
        # .ARM.exidx.ramcode and the like) and is free for the parser
        secs.append({'name': case.get('idx_name', '.ARM.exidx') if g == 0 else '.ARM.exidx.text.second', 'sh_type': SHT_EXIDX, 'sh_flags': 0x82,
                     'sh_link': 1, 'data': b'\0' * (8 * len(idxs)), 'sh_addralign': 4, 'file_align': 4})
    nobi = None
    if case.get('nobits_before_tab'):
        # a no-bits section (.tbss) whose header precedes the tables' and names the same file offset: it occupies no file space, its
        # nominal extent [sh_offset, sh_offset + sh_size) overlaps the first table entries and says nothing about them
        nobi = len(secs)
        secs.append({'name': '.tbss', 'sh_type': 8, 'sh_flags': 0x403, 'data': b'', 'size_override': case['nobits_before_tab'], 'sh_addralign': 4, 'file_align': 4})
    tabi = len(secs)
    secs.append({'name': '.ARM.extab', 'sh_type': 1, 'sh_flags': 2, 'data': extab, 'sh_addralign': 4, 'file_align': 4})
    tab2i = None
    if second is not None:
        tab2i = len(secs)
        secs.append({'name': case.get('tab2_name', '.ARM.extab.text.startup'), 'sh_type': 1, 'sh_flags': 2, 'data': second, 'sh_addralign': 4, 'file_align': 4})
    stri = len(secs)
    secs.append({'name': '.shstrtab', 'sh_type': 3, 'data': b''})
    body = xidx + [tabi]
    if case.get('tab_first'):
        body = [tabi] + xidx
    if tab2i is not None:
        body = ([tab2i] + body) if case.get('tab2_first') else (body + [tab2i])
    if nobi is not None:
        body.insert(body.index(tabi), nobi)
    order = ['ph', 1] + body + [stri, 'sh']
    if case.get('order') == 1:
        order = ['ph'] + body + [1, stri, 'sh']
    elif case.get('order') == 2:
        order = ['sh', stri] + body + [1, 'ph']
    m = {'cls': 32, 'le': le, 'e_type': case.get('et', 3), 'e_machine': EM_ARM, 'e_flags': arm_flags(case, le), 'sections': secs,
         'shstrndx': stri, 'order': order,
         'segments': [{'p_type': 1, 'p_flags': 5, 'p_offset': 0, 'p_vaddr': 0, 'p_paddr': 0, 'p_filesz': ['file_len', 0],
                       'p_memsz': ['file_len', 0], 'p_align': 0x1000},
                      {'p_type': 0x70000001, 'p_flags': 4, 'p_offset': ['sec_off', xidx[0], 0], 'p_vaddr': ['sec_off', xidx[0], 0],
                       'p_paddr': ['sec_off', xidx[0], 0], 'p_filesz': ['sec_size', xidx[0], 0],
                       'p_memsz': ['sec_size', xidx[0], 0], 'p_align': 4}]}
    _, R = W.build(m)           # layout pass
    tab_off = R['sh'][tabi]['sh_offset']
    exps = []
    for g, idxs in enumerate(groups):
        xo = R['sh'][xidx[g]]['sh_offset']
        blob = b''
        exp_entries = []
        for slot, i in enumerate(idxs):
            e = ents[i]
            k = e['kind']
            place = xo + 8 * slot
            disp = e['disp']
            assert -(1 << 30) <= disp < (1 << 30)
            w0 = disp & 0x7fffffff
            x = {'kind': k, 'i': i, 'place': place, 'w0': w0, 'fn': (place + disp) & M64, 'fn_true': place + disp}
            if k == 'bad_idx':
                w0 |= 0x80000000
            if k in ('cant', 'bad_idx'):
                w1 = 1 if (k == 'cant' or not e.get('code')) else None
                if w1 is None:
                    c = padded_code({'kind': 'inline', 'code': e['code']})
                    w1 = 0x80000000 | c[0] << 16 | c[1] << 8 | c[2]
            elif k == 'inline':
                c = padded_code(e)
                w1 = 0x80000000 | c[0] << 16 | c[1] << 8 | c[2]
                x['code'] = list(c)
            elif k == 'bad_inline':
                assert 3 <= e['bits'] <= 0x7f      # index 1/2 with bits 30-28 clear is read as a model by binutils: not generated
                w1 = 0x80000000 | e['bits'] << 24 | (e.get('low', 0) & 0xffffff)
            else:
                t = (R['sh'][tab2i]['sh_offset'] + rel[i][1]) if isinstance(rel[i], tuple) else tab_off + rel[i]
                x['tab'] = t
                w1 = (t - (place + 4)) & 0x7fffffff
                assert w1 != 1
                if k in ('t0', 't1', 't2'):
                    x['code'] = list(padded_code(e))
                if k == 'generic':
                    x['pers'] = (t + e['pd']) & M64
                    x['pw'] = e['pd'] & 0x7fffffff
            x['w1'] = w1
            blob += struct.pack(P, w0) + struct.pack(P, w1)
            exp_entries.append(x)
        secs[xidx[g]]['data'] = blob
        exps.append((secs[xidx[g]]['name'], xo, exp_entries))
    for i in range(1, len(secs)):
        secs[i]['sh_addr'] = R['sh'][i]['sh_offset']
    data, R2 = W.build(m)
    assert [h['sh_offset'] for h in R2['sh']] == [h['sh_offset'] for h in R['sh']]
    return data, R2, exps


def wrong_sign(place, w):
    """what a prel31 expansion with the opposite sign decision would return"""
    loc = w & 0x7fffffff
    if loc & 0x40000000:
        return (loc + place) & M64
    return ((loc | 0xffffffff80000000) + place) & M64


def cmp_prel31(ctx, case, field, got, exp, place, w, where):
    if got == exp:
        return
    b26, b30 = w >> 26 & 1, w >> 30 & 1
    if got == wrong_sign(place, w):
        ctx.fail('exidx.prel31.sign|bit26%sbit30' % ('!=' if b26 != b30 else '=='),
                 '%s %s: word 0x%08x at file offset 0x%x (bit30=%d bit26=%d): expected place + sign_extend31 = 0x%x, got 0x%x '
                 '(the value for the opposite sign)' % (where, field, w, place, b30, b26, exp, got), case)
    else:
        ctx.fail('exidx.%s|value' % field, '%s %s: word 0x%08x at file offset 0x%x: expected 0x%x, got %r' % (
            where, field, w, place, exp, got), case)


def cmp_disasm(ctx, case, ent, code, where):
    exp = disasm(code)
    assert exp is not None
    try:
        got = ent.mnmemonic_array()
        got = [(list(m.bytecode), m.mnemonic) for m in got]
    except Exception as e:  # noqa
        from vf.core import exc_site
        t, site = exc_site(e)
        fn = site.rsplit(':', 1)[-1]
        if fn.startswith('_decode_'):
            ctx.fail('ehabi.disasm|op=%s' % fn[len('_decode_'):],
                     '%s byte-code %s: mnmemonic_array() raised %s: %s in %s; expected %r' % (
                         where, bytes(code).hex(), t, str(e)[:200], site, exp), case)
        else:
            ctx.fail_exc('ehabi.disasm', e, case, extra='%s byte-code %s' % (where, bytes(code).hex()))
        return
    if got == [(a, b) for a, b in exp]:
        return
    for j in range(max(len(exp), len(got))):
        if j >= len(exp):
            ctx.fail('ehabi.disasm|surplus_item', '%s byte-code %s: surplus item %r' % (where, bytes(code).hex(), got[j]), case)
            return
        if j >= len(got) or got[j] != exp[j]:
            g = got[j] if j < len(got) else None
            what = 'text' if (g is not None and g[0] == exp[j][0]) else 'extent'
            ctx.fail('ehabi.disasm|op=%s' % op_class(exp[j][0][0]),
                     '%s byte-code %s item #%d (%s): expected %r got %r (full: %r)' % (
                         where, bytes(code).hex(), j, what, exp[j], g, got), case)
            return


def access_order(mode, n):
    idx = list(range(n))
    if mode == 'rev':
        return idx[::-1]
    if mode == 'twice':
        return idx + idx
    if mode == 'evenodd':
        return idx[::2] + idx[1::2]
    if mode == 'zigzag':
        out = []
        a, b = 0, n - 1
        while a <= b:
            out.append(a)
            if b != a:
                out.append(b)
            a += 1
            b -= 1
        return out
    return idx


def run_exidx(ctx, case):
    L = lib()
    eh = L['eh']
    data, R, exps = build_exidx_elf(case)
    ents = case['entries']
    multi = False
    diff = False
    for e in ents:
        ctx.count('exidx.kind.%s' % e['kind'])
        w = e['disp'] & 0x7fffffff
        if e['kind'] != 'bad_idx':
            b26, b30 = w >> 26 & 1, w >> 30 & 1
            ctx.count('exidx.disp.bit30=%d.bit26=%d' % (b30, b26))
            if b26 != b30:
                diff = True
        if e['kind'] == 'generic':
            pw = e['pd'] & 0x7fffffff
            ctx.count('exidx.pers.bit30=%d.bit26=%d' % (pw >> 30 & 1, pw >> 26 & 1))
            if (pw >> 30 & 1) != (pw >> 26 & 1):
                diff = True
        if e['kind'] in ('inline', 't0', 't1', 't2'):
            c = padded_code(e)
            d = disasm(c)
            assert d is not None, 'generator produced a truncated opcode'
            for bs, _ in d:
                ctx.count('ehabi.op.%s' % op_class(bs[0]))
                if len(bs) >= 2:
                    multi = True
                if bs[0] == 0xb2:
                    ctx.count('ehabi.b2.uleb_len=%d' % (len(bs) - 1))
            if e['kind'] in ('t1', 't2'):
                ctx.count('exidx.extra_words.%s' % (min((len(c) - 2) // 4, 7) if (len(c) - 2) // 4 < 7 else '7+'))
    ctx.count('exidx.%s' % ('le' if case['le'] else 'be'))
    ctx.count('exidx.et.%d' % case.get('et', 3))
    ctx.count('exidx.n.%s' % ('0' if not ents else '1-9' if len(ents) < 10 else '10+'))
    ctx.count('exidx.tab_first' if case.get('tab_first') else 'exidx.tab_after')
    if case.get('tab_split') is not None and sum(1 for e in ents if e['kind'] in TABLE_KINDS) >= 2:
        ctx.count('exidx.tables-in-two-sections')
    ctx.case((data, case.get('acc', 'seq')), diff or multi,
             {'k': 'exidx', 'le': case['le'], 'entries': len(ents), 'kinds': sorted(set(e['kind'] for e in ents)),
              'disp_bit26_ne_bit30': diff, 'multibyte_opcode': multi})

    try:
        elf = L['ELFFile'](CountingStream(data))
        if elf.has_ehabi_info() is not True:
            ctx.fail('exidx.has_ehabi_info', 'has_ehabi_info() is not True for a file with SHT_ARM_EXIDX sections', case)
        infos = elf.get_ehabi_infos()
    except Exception as e:  # noqa
        ctx.fail_exc('exidx.open', e, case)
        return
    if infos is None or len(infos) != len(exps):
        ctx.fail('exidx.infos|count', 'get_ehabi_infos() -> %r, expected %d index sections' % (infos, len(exps)), case)
        return
    # Another ARM file of the opposite byte order is opened and queried while this one is still in use: everything below is read from
    # objects that were created BEFORE the other file was opened (decoding state must be per file).
    try:
        odata, _r, oexps = build_exidx_elf(dict(case, le=not case['le']))
        other = L['ELFFile'](io.BytesIO(odata))
        oinfos = other.get_ehabi_infos() or []
        for oi in oinfos[:2]:
            if oi.num_entry():
                oi.get_entry(0)
        ctx.count('exidx.other-file-open')
    except Exception as e:  # noqa   (the companion is judged when it is the case itself)
        ctx.count('exidx.other-file-failed')
    for info, (name, xo, xents) in zip(infos, exps):
        try:
            hdr = (info.section_name(), info.section_offset(), info.num_entry())
        except Exception as e:  # noqa
            ctx.fail_exc('exidx.info', e, case)
            continue
        if hdr != (name, xo, len(xents)):
            ctx.fail('exidx.info|header', 'expected (name, offset, entries) %r got %r' % ((name, xo, len(xents)), hdr), case)
            continue
        try:
            info.get_entry(len(xents))
            ctx.fail('exidx.get_entry|out_of_range', 'get_entry(num_entry()) did not raise IndexError', case)
        except IndexError:
            pass
        except Exception as e:  # noqa
            ctx.fail_exc('exidx.get_entry|out_of_range', e, case)
        for slot in access_order(case.get('acc', 'seq'), len(xents)):
            x = xents[slot]
            k = x['kind']
            where = 'entry #%d (%s)' % (slot, k)
            try:
                ent = info.get_entry(slot)
            except Exception as e:  # noqa
                ctx.fail_exc('exidx.get_entry|kind=%s' % k, e, case, extra='%s words %08x %08x' % (where, x['w0'], x['w1']))
                continue
            # class and flags
            corrupt = k in ('bad_idx', 'bad_inline', 'bad_table', 'reserved')
            want_cls = (eh.CorruptEHABIEntry if corrupt else eh.CannotUnwindEHABIEntry if k == 'cant'
                        else eh.GenericEHABIEntry if k == 'generic' else eh.EHABIEntry)
            ok_cls = isinstance(ent, want_cls) and (want_cls is not eh.EHABIEntry or type(ent) is eh.EHABIEntry)
            if not ok_cls:
                ctx.fail('exidx.class|kind=%s' % k, '%s words %08x %08x: expected %s got %r' % (
                    where, x['w0'], x['w1'], want_cls.__name__, ent), case)
            if bool(ent.corrupt) != corrupt or bool(ent.unwindable) != (k != 'cant'):
                ctx.fail('exidx.flags|kind=%s' % k, '%s: corrupt=%r unwindable=%r' % (where, ent.corrupt, ent.unwindable), case)
            if corrupt:
                for f in ('function_offset', 'personality', 'bytecode_array'):
                    if getattr(ent, f) is not None:
                        ctx.fail('exidx.corrupt|%s_not_None' % f, '%s: %s = %r' % (where, f, getattr(ent, f)), case)
                continue
            # function address
            if not isinstance(ent.function_offset, int):
                ctx.fail('exidx.function_offset|type', '%s: %r' % (where, ent.function_offset), case)
            else:
                cmp_prel31(ctx, case, 'function_offset', ent.function_offset, x['fn'], x['place'], x['w0'], where)
                if not 0 <= x['fn_true'] < (1 << 32):
                    ctx.count('exidx.fn_wraps')
            # personality / byte-code / table offset
            if k == 'cant':
                if ent.personality is not None or ent.bytecode_array is not None or ent.eh_table_offset is not None:
                    ctx.fail('exidx.cantunwind|fields_not_None', '%s: personality=%r bytecode=%r eh_table_offset=%r' % (
                        where, ent.personality, ent.bytecode_array, ent.eh_table_offset), case)
                continue
            if k == 'generic':
                if ent.bytecode_array is not None:
                    ctx.fail('exidx.generic|bytecode_not_None', '%s: %r' % (where, ent.bytecode_array), case)
                if not isinstance(ent.personality, int):
                    ctx.fail('exidx.personality|type', '%s: %r' % (where, ent.personality), case)
                else:
                    cmp_prel31(ctx, case, 'personality', ent.personality, x['pers'], x['tab'], x['pw'], where)
                if ent.eh_table_offset not in (None, x['tab']):
                    ctx.fail('exidx.eh_table_offset|kind=generic', '%s: expected 0x%x got %r' % (where, x['tab'], ent.eh_table_offset), case)
                continue
            model = {'inline': 0, 't0': 0, 't1': 1, 't2': 2}[k]
            if ent.personality != model or isinstance(ent.personality, bool):
                ctx.fail('exidx.personality|kind=%s' % k, '%s: expected compact model %d got %r' % (where, model, ent.personality), case)
            if k == 'inline':
                if ent.eh_table_offset is not None:
                    ctx.fail('exidx.eh_table_offset|kind=inline', '%s: expected None got %r' % (where, ent.eh_table_offset), case)
            elif ent.eh_table_offset != x['tab']:
                ctx.fail('exidx.eh_table_offset|kind=%s' % k, '%s: word1 0x%08x at 0x%x points to the table entry at 0x%x; '
                         'eh_table_offset = %r' % (where, x['w1'], x['place'] + 4, x['tab'], ent.eh_table_offset), case)
            bc = ent.bytecode_array
            if bc is None or list(bc) != x['code']:
                ctx.fail('exidx.bytecode|kind=%s' % k, '%s: expected %s got %r' % (where, bytes(x['code']).hex(), bc), case)
                continue
            cmp_disasm(ctx, case, ent, x['code'], where)


# ---- generator ---------------------------------------------------------------------------------

ONE_BYTE = [b for b in range(256) if b not in TWO_BYTE_FIRST and b != 0xb2]
DISP_EDGES = [0, 4, -4, -8, 0x100, -0x100, (1 << 26) - 4, 1 << 26, (1 << 26) + 4, -(1 << 26), -(1 << 26) - 4, -(1 << 26) + 4,
              (1 << 30) - 4, (1 << 30) - 1, -(1 << 30), -(1 << 30) + 4, 1 << 29, -(1 << 29), 0x04000000 | 0x1230, 0x3c000000,
              -0x3c000000, 0x12345678 & 0x3fffffff, 1, -1]


def gen_disp(ch):
    k = ch.int(0, 5)
    if k <= 1:
        return ch.int(-64, 64) * 4
    if k == 2:
        return ch.choice(DISP_EDGES)
    if k == 3:
        return ch.int(-(1 << 30), (1 << 30) - 1)
    if k == 4:
        return ch.int(1 << 26, (1 << 30) - 1)          # positive, bit 26.. set, bit 30 clear
    return -ch.int(1, 1 << 30)


def gen_op(ch, room):
    """one complete opcode of at most `room` bytes"""
    k = ch.int(0, 9)
    if k <= 3 or room < 2:
        return bytes([ch.choice([0xb0, 0x00, 0x3f, 0x40, 0x7f, 0x97, 0x9d, 0x9f, 0xa0, 0xa7, 0xa8, 0xaf, 0xb4, 0xb8, 0xbf,
                                 0xc0, 0xc5, 0xca, 0xd0, 0xd7, 0xd8, 0xff]) if ch.int(0, 2) == 0 else ch.choice(ONE_BYTE)])
    if k <= 6:
        return bytes([ch.choice(TWO_BYTE_FIRST), ch.choice([0x00, 0x01, 0x0f, 0x10, 0x80, 0xff, ch.int(0, 255), ch.int(0, 255)])])
    n = ch.int(1, min(4, room - 1))
    v = ch.choice([0, 1, 0x7f, ch.int(0, (1 << (7 * n)) - 1), ch.int(0, (1 << (7 * n)) - 1)]) & ((1 << (7 * n)) - 1)
    m = leb.uleb(v)
    return bytes([0xb2]) + (m if len(m) >= n else leb.uleb(v, n - len(m)))


def gen_code(ch, cap):
    code = b''
    while len(code) < cap:
        code += gen_op(ch, cap - len(code))
        if ch.int(0, 5) == 0:
            break
    return code


ENTRY_MIX = ['inline', 'cant', 't1', 't0', 't2', 'generic', 'inline', 't1', 'bad_idx', 'bad_inline', 'bad_table', 'reserved']


def gen_entry(ch, kind=None):
    k = kind or ch.choice(ENTRY_MIX)
    e = {'kind': k, 'disp': gen_disp(ch)}
    if k in ('inline', 't0'):
        e['code'] = gen_code(ch, 3)
    elif k in ('t1', 't2'):
        nw = ch.choice([0, 1, 2, 1, 3, 6, 4, 5])
        e['nw'] = nw
        e['code'] = gen_code(ch, 2 + 4 * nw)
    elif k == 'generic':
        e['pd'] = gen_disp(ch)
    elif k == 'bad_idx':
        if ch.bool():
            e['code'] = gen_code(ch, 3)
    elif k == 'bad_inline':
        e['bits'] = ch.choice([0x10, 0x40, 0x7f, 0x11, 0x08, 3, ch.int(3, 0x7f)])
        e['low'] = ch.int(0, 0xffffff)
    elif k == 'bad_table':
        e['bits'] = ch.int(1, 7)
        e['low'] = ch.int(0, 0x0fffffff)
    elif k == 'reserved':
        e['bits'] = ch.int(3, 15)
        e['low'] = ch.int(0, 0xffffff)
    if k in TABLE_KINDS and ch.int(0, 2) == 0:
        e['trail'] = [ch.choice([0, 0xffffffff, 0x80b0b0b0, ch.int(0, 0xffffffff)]) for _ in range(ch.int(1, 3))]
    return e


def gen_exidx_case(ch, tier):
    n = ch.choice([1, 2, 3, 0, 5, 8, 13, 30, 60, ch.int(0, 60)])
    # kind drawn from `ch` (shrinkable); contents of an entry from a PRNG seeded by one drawn integer (cheap)
    ents = [gen_entry(RndChooser(ch.int(0, 0xfffff)), ch.choice(ENTRY_MIX)) for _ in range(n)]
    case = {'k': 'exidx', 'le': ch.bool(), 'et': ch.choice([3, 2]), 'pad': ch.choice([64, 0, 4, 256, 1000, 4096]),
            'order': ch.int(0, 2), 'tab_first': ch.bool(), 'tab_rev': ch.bool(), 'tab_lead': ch.choice([0, 0, 1, 3]),
            'acc': ch.choice(['seq', 'rev', 'twice', 'evenodd', 'zigzag']), 'entries': ents}
    if n >= 2 and ch.int(0, 4) == 0:
        case['split'] = ch.int(0, n)
    if ch.bool(0.25):
        case['nobits_before_tab'] = ch.choice([4, 8, 12, 0x20])
    if ch.bool(0.3):
        case['idx_name'] = ch.choice(['.ARM.exidx.ramcode', '.ARM.exidx.text.hot', '.exidx', '.ARM.EXIDX', 'unwind_index'])
    if ch.bool(0.3):
        case.update(tab_split=ch.int(0, 60), tab2_name=ch.choice(['.ARM.extab.text.startup', '.rodata', '.gcc_except_table', '.ARM.extab.text.unlikely']), tab2_first=ch.bool())
    return case


def build_case(ch, tier):
    if ch.int(0, 4) < 2:
        return gen_attr_case(ch, tier)
    return gen_exidx_case(ch, tier)


strategy = composite_from(build_case)


def run_case(ctx, case):
    if case['k'] == 'attr':
        run_attr(ctx, case)
    else:
        run_exidx(ctx, case)


# ===========================================================================
# deterministic sweep
# ===========================================================================

def _exidx_case(entries, le, **kw):
    c = {'k': 'exidx', 'le': le, 'et': 3, 'pad': 64, 'order': 0, 'tab_first': False, 'tab_rev': False, 'acc': 'seq',
         'entries': entries}
    c.update(kw)
    return c


def complete_first_byte(b):
    """smallest complete opcode starting with b (used by the first-byte sweep)"""
    if b in TWO_BYTE_FIRST:
        return bytes([b, 0x21])
    if b == 0xb2:
        return bytes([b, 0x7f])
    return bytes([b])


def b2_operands():
    """ULEB operands of 1..4 bytes: boundaries of every length, minimal and non-minimal"""
    out = []
    for n in range(1, 5):
        hi = (1 << (7 * n)) - 1
        vals = {0, 1, 0x7f & hi, hi, hi >> 1, 1 << (7 * (n - 1)), (1 << (7 * (n - 1))) - 1, 0x55555555 & hi, 0x2aaaaaaa & hi}
        for v in sorted(vals):
            m = leb.uleb(v)
            if len(m) > n:
                continue
            out.append(m if len(m) == n else leb.uleb(v, n - len(m)))
    return sorted(set(out))


def sweep_exidx_entries():
    """list of (label, entry) covering the opcode space"""
    ents = []
    # A. all 256 first bytes, as the first, second(where it fits) and last opcode of an inline entry and in a model-1 entry
    for b in range(256):
        op = complete_first_byte(b)
        ents.append({'kind': 'inline', 'disp': -4 * (b + 1), 'code': op})
        if len(op) == 1:
            ents.append({'kind': 'inline', 'disp': 4 * b, 'code': bytes([0x01]) + op + bytes([0x41])})
        ents.append({'kind': 't1' if b & 1 else 't2', 'disp': 8 * b, 'nw': 1, 'code': bytes([0xb0]) + op + op})
    # B. every two-byte opcode x every second byte
    for f in TWO_BYTE_FIRST:
        for s in range(256):
            ents.append({'kind': 'inline' if s & 1 else 't0', 'disp': -8, 'code': bytes([f, s])})
    # C. 0xb2 with ULEB operands of 1..4 bytes x successor classes
    for operand in b2_operands():
        op = bytes([0xb2]) + operand
        for succ in (b'', b'\xb0', b'\x00', b'\x7f', b'\x40\x01', b'\x80\x00', b'\x80\x10', b'\xb1\x01', b'\xb2\x00', b'\x9d'):
            code = op + succ
            if len(code) <= 3:
                ents.append({'kind': 'inline', 'disp': 16, 'code': code})
            nw = (max(len(code) - 2, 0) + 3) // 4
            ents.append({'kind': 't1', 'disp': 16, 'nw': nw, 'code': code})
            # operand ending exactly at the end of the array (no successor byte at all)
            if not succ and (len(code) - 2) % 4 != 0 and len(code) > 2:
                padn = (2 - len(code)) % 4
                ents.append({'kind': 't2', 'disp': 16, 'code': b'\x00' * padn + code})
    return ents


def sweep(tier):
    cases = []
    # --- exidx: opcode space
    ents = sweep_exidx_entries()
    per = 60
    for le in (True, False):
        for i in range(0, len(ents), per):
            cases.append(_exidx_case(ents[i:i + per], le, tab_first=bool((i // per) & 1), tab_rev=bool((i // per) & 2)))
    # --- exidx: kinds x displacement classes x byte order x e_type x layout
    for le in (True, False):
        for et in (2, 3):
            for tab_first in (False, True):
                es = []
                for j, d in enumerate(DISP_EDGES):
                    k = ALL_KINDS[j % len(ALL_KINDS)]
                    e = {'kind': k, 'disp': d}
                    if k in ('inline', 't0'):
                        e['code'] = bytes([0x97, 0x84, 0x08])
                    elif k in ('t1', 't2'):
                        e['nw'] = j % 7
                        e['code'] = bytes([0x97, 0x41]) + bytes([0xa0 + (j & 7)]) * (4 * (j % 7))
                    elif k == 'generic':
                        e['pd'] = DISP_EDGES[(j * 7 + 3) % len(DISP_EDGES)]
                    elif k == 'bad_inline':
                        e['bits'], e['low'] = [0x10, 0x40, 0x7f, 3, 0x21, 0x0f][j % 6], 0xb0b0b0
                    elif k == 'bad_table':
                        e['bits'], e['low'] = 1 + j % 7, 0x0123456
                    elif k == 'reserved':
                        e['bits'], e['low'] = 3 + j % 13, 0xb0b0b0
                    es.append(e)
                # every kind with every displacement edge
                for k in ('cant', 'inline', 'generic'):
                    for d in DISP_EDGES:
                        e = {'kind': k, 'disp': d}
                        if k == 'inline':
                            e['code'] = b'\xb0'
                        if k == 'generic':
                            e['pd'] = -d if -(1 << 30) <= -d < (1 << 30) else d
                        es.append(e)
                for i in range(0, len(es), 48):
                    cases.append(_exidx_case(es[i:i + 48], le, et=et, tab_first=tab_first, acc='rev' if tab_first else 'seq',
                                             pad=0x1000 if et == 2 else 64))
    # model 1/2 with 0..6 extra words, each filled to the brim
    for le in (True, False):
        es = []
        for k in ('t1', 't2'):
            for nw in range(7):
                es.append({'kind': k, 'disp': -4, 'nw': nw, 'code': bytes((0x01 + i) & 0x3f for i in range(2 + 4 * nw)),
                           'trail': [0, 0x12345678]})
        cases.append(_exidx_case(es, le, split=7))
        cases.append(_exidx_case(es, le, nobits_before_tab=8))
        cases.append(_exidx_case(es, le, idx_name='.ARM.exidx.ramcode'))
        for k2, nm in enumerate(('.ARM.extab.text.startup', '.rodata')):
            cases.append(_exidx_case(es, le, tab_split=3 + 5 * k2, tab2_name=nm, tab2_first=bool(k2), split=5 if k2 else None))
        # counts beyond the usual range: the count field is a full byte
        cases.append(_exidx_case([{'kind': 't1', 'disp': 8, 'nw': nw, 'code': bytes((0x3f - i) & 0x3f for i in range(2 + 4 * nw))}
                                  for nw in (7, 16, 17, 128, 255)], le, tab_first=not le))
        cases.append(_exidx_case([], le))
    # --- attributes: every tag x value shapes, lock-step
    ch = RndChooser(20)
    for arch in ('arm', 'riscv'):
        tags = usable_tags(arch)
        for le in (True, False):
            for cls in ((32,) if arch == 'arm' else (32, 64)):
                attrs = []
                for t in tags:
                    k = tag_kind(arch, t)
                    if k == 'u':
                        for v, p in ((0, 0), (1, 0), (127, 0), (128, 0), (16383, 1), ((1 << 32) - 1, 0), ((1 << 64) + 1, 2), (3, 4)):
                            attrs.append({'t': t, 'v': v, 'vp': p})
                        attrs.append({'t': t, 'tp': 2, 'v': 2})
                    elif k == 's':
                        for s in STRINGS[:8]:
                            attrs.append({'t': t, 's': s})
                    elif k == 'c':
                        for v, p, s in ((0, 0, ''), (1, 0, 'gnu'), (300, 1, 'vendoré'), (1 << 40, 0, 'x')):
                            attrs.append({'t': t, 'v': v, 'vp': p, 's': s})
                    else:
                        for it in tags:
                            ik = tag_kind(arch, it)
                            if ik == 'u':
                                attrs.append({'t': t, 'n': {'t': it, 'v': 1 + (it * 3) % 200}})
                                attrs.append({'t': t, 'n': {'t': it, 'v': 1 << (it % 40)}})
                            elif ik == 's':
                                attrs.append({'t': t, 'n': {'t': it, 's': 'v7'}})
                                attrs.append({'t': t, 'n': {'t': it, 's': ''}})
                for scope in (1, 2, 3):
                    ss = {'scope': scope, 'attrs': attrs}
                    if scope != 1:
                        ss['nums'] = [[1, 0], [128, 0], [5, 2]]
                    cases.append({'k': 'attr', 'arch': arch, 'le': le, 'cls': cls, 'pad': 16, 'order': scope % 4, 'tail': 0,
                                  'et': 1, 'subs': [{'vendor': 'aeabi' if arch == 'arm' else 'riscv', 'subsubs': [ss]}],
                                  'pattern': 'lockstep'})
    # --- attributes: structure x every consumption pattern
    for arch in ('arm', 'riscv'):
        for nsub in (1, 2, 3):
            for nss in (1, 2, 3):
                for p in PATTERNS:
                    cases.append(gen_attr_case(ch, tier, pattern=p, arch=arch, nsub=nsub, nss=nss))
    if tier == 'thorough':
        for arch in ('arm', 'riscv'):
            for nsub in (1, 2, 3, 4, 5):
                for nss in (1, 2, 3, 4):
                    for p in PATTERNS:
                        for _ in range(4):
                            cases.append(gen_attr_case(ch, tier, pattern=p, arch=arch, nsub=nsub, nss=nss))
    return cases


# ===========================================================================
# referee: llvm-readelf -u  vs. my encoder + disassembler (development / thorough tier)
# ===========================================================================

def have_referee():
    return shutil.which('llvm-readelf') is not None


def parse_llvm_unwind(text):
    """-> list (per index table) of list of entries {'fn', 'model', 'tab', 'pers', 'index', 'ops': [(bytes, text)]}"""
    tables = []
    cur = None
    ent = None
    for line in text.splitlines():
        s = line.strip()
        if s.startswith('UnwindIndexTable'):
            cur = []
            tables.append(cur)
        elif s.startswith('Entry {'):
            ent = {'ops': []}
            cur.append(ent)
        elif s.startswith('FunctionAddress:'):
            ent['fn'] = int(s.split(':')[1], 16)
        elif s.startswith('Model:'):
            ent['model'] = s.split(':', 1)[1].strip()
        elif s.startswith('TableEntryAddress:'):
            ent['tab'] = int(s.split(':')[1], 16)
        elif s.startswith('PersonalityRoutineAddress:'):
            ent['pers'] = int(s.split(':')[1], 16)
        elif s.startswith('PersonalityIndex:'):
            ent['index'] = int(s.split(':')[1])
        elif re.match(r'^0x[0-9A-F]{2}', s) and ';' in s:
            bs, t = s.split(';', 1)
            ent['ops'].append(([int(x, 16) for x in bs.split()], t.strip()))
    return tables


def referee(cases, verbose=False):
    """-> (files, entries compared, list of disagreement strings)"""
    bad = []
    nfiles = nent = 0
    tmp = tempfile.mkdtemp(prefix='c20ref_')
    try:
        for ci, case in enumerate(cases):
            if case['k'] != 'exidx' or not case['entries'] or not case['le']:
                continue    # llvm-readelf 14 prints ARM unwind information for little-endian files only
            data, R, exps = build_exidx_elf(case)
            p = os.path.join(tmp, 'f.elf')
            with open(p, 'wb') as f:
                f.write(data)
            r = subprocess.run(['llvm-readelf', '-u', p], stdout=subprocess.PIPE, stderr=subprocess.PIPE, text=True)
            err = [l for l in r.stderr.splitlines() if l.strip()]
            if any(e['kind'] == 'bad_idx' for e in case['entries']):
                err = [l for l in err if 'corrupt unwind data' not in l]
            if r.returncode != 0 or err:
                bad.append('case %d: llvm-readelf rc=%d stderr=%s' % (ci, r.returncode, r.stderr.strip()[:300]))
                continue
            tabs = parse_llvm_unwind(r.stdout)
            nfiles += 1
            if len(tabs) != len(exps):
                bad.append('case %d: %d tables printed, %d expected' % (ci, len(tabs), len(exps)))
                continue
            for tab, (name, xo, xents) in zip(tabs, exps):
                if len(tab) != len(xents):
                    bad.append('case %d: %d entries printed, %d expected' % (ci, len(tab), len(xents)))
                    continue
                for g, x in zip(tab, xents):
                    k = x['kind']
                    nent += 1
                    if k == 'bad_idx':
                        continue    # the printer does not validate bit 31 of the first word
                    if g.get('fn') != x['fn']:
                        bad.append('case %d entry %d (%s): FunctionAddress %r vs mine 0x%x' % (ci, x['i'], k, g.get('fn'), x['fn']))
                    want_model = {'cant': 'CantUnwind', 'inline': 'Compact (Inline)', 'bad_inline': 'Compact (Inline)',
                                  'generic': 'Generic'}.get(k, 'Compact')
                    if g.get('model') != want_model:
                        bad.append('case %d entry %d (%s): Model %r' % (ci, x['i'], k, g.get('model')))
                    if 'tab' in x and g.get('tab') != x['tab']:
                        bad.append('case %d entry %d (%s): TableEntryAddress %r vs 0x%x' % (ci, x['i'], k, g.get('tab'), x['tab']))
                    if k == 'generic' and g.get('pers') != x['pers']:
                        bad.append('case %d entry %d: PersonalityRoutineAddress %r vs 0x%x' % (ci, x['i'], g.get('pers'), x['pers']))
                    if 'code' in x:
                        mine = [(a, b) for a, b in disasm(x['code'])]
                        # IHI 0038B table 4: 10110001 00000000 is spare; llvm-readobj 14 prints a bare 'pop' for it
                        theirs = [(a, 'spare' if (a == [0xb1, 0] and b == 'pop') else b) for a, b in g['ops']]
                        if mine != theirs:
                            # tolerate later LLVM versions' PAC opcodes (0xb4/0xb5 are spare in IHI 0038B)
                            if any('ra_auth_code' in t or 'PAC' in t for _, t in theirs):
                                continue
                            bad.append('case %d entry %d (%s) code %s: llvm %r mine %r' % (ci, x['i'], k, bytes(x['code']).hex(), theirs, mine))
            if verbose and ci % 50 == 0:
                print('referee: %d cases, %d entries, %d disagreements' % (ci, nent, len(bad)))
    finally:
        shutil.rmtree(tmp, ignore_errors=True)
    return nfiles, nent, bad


def parse_readelf_attrs(text):
    """`readelf -A` -> [[vendor, [[scope name, numbers|None, attribute lines]...]]...]"""
    subs = []
    for line in text.splitlines():
        if line.startswith('Attribute Section: '):
            subs.append([line[len('Attribute Section: '):], []])
        elif line.startswith('File Attributes'):
            subs[-1][1].append(['TAG_FILE', None, 0])
        elif line.startswith('Section Attributes:') or line.startswith('Symbol Attributes:'):
            nums = [int(x) for x in line.split(':', 1)[1].split()]
            subs[-1][1].append(['TAG_SECTION' if line.startswith('Sec') else 'TAG_SYMBOL', nums, 0])
        elif line.startswith('  Tag_'):
            subs[-1][1][-1][2] += 1
    return subs


def referee_attr_cases(n, seed):
    """attribute cases binutils 2.40 can display completely.  Its limits (not the format's): scope tag read as one byte,
    a sub-subsection needs >= 1 attribute byte, values must fit 32 bits, Tag_nodefaults is skipped as exactly one byte,
    Tag_RISCV_unaligned_access > 1 is printed without a newline, only the public vendor is displayed."""
    ch = RndChooser(seed)
    out = []
    while len(out) < n:
        c = gen_attr_case(ch, 'quick', pattern='lockstep')
        for s in c['subs']:
            s['vendor'] = 'aeabi' if c['arch'] == 'arm' else 'riscv'
            for ss in s['subsubs']:
                ss.pop('sp', None)
                if not ss['attrs']:
                    ss['attrs'] = [{'t': 6, 'v': 1}]
                for a in ss['attrs']:
                    for x in (a, a.get('n', {})):
                        if 's' in x and not all(32 <= ord(ch_) < 127 for ch_ in x['s']):
                            x['s'] = 'str'
                        if 'v' in x:
                            x['v'] = (x['v'] & 0x7fffffff) or (1 if x is not a else 0)
                        if x.get('t') == 64 and c['arch'] == 'arm':
                            if x is a:
                                x['v'], x['vp'] = 0, 0
                            else:
                                x['t'] = 6
                        if x.get('t') == 6 and c['arch'] == 'riscv':
                            x['v'] &= 1
        out.append(c)
    return out


def referee_attr(cases):
    """binutils `readelf -A` vs. my attribute encoder: subsections, vendors, scopes, number lists, attribute counts"""
    bad = []
    n = 0
    tmp = tempfile.mkdtemp(prefix='c20ref_')
    try:
        for ci, case in enumerate(cases):
            data, R, exp = build_attr_elf(case)
            p = os.path.join(tmp, 'a.elf')
            with open(p, 'wb') as f:
                f.write(data)
            r = subprocess.run(['readelf', '-A', p], stdout=subprocess.PIPE, stderr=subprocess.PIPE, text=True, errors='replace')
            if r.returncode != 0 or r.stderr.strip():
                bad.append('attr case %d: readelf rc=%d stderr=%s' % (ci, r.returncode, r.stderr.strip()[:300]))
                continue
            got = parse_readelf_attrs(r.stdout)
            mine = [[S[1], [[SS[0], SS[2], len(SS[3])] for SS in S[2]]] for S in exp]
            n += 1
            if got != mine:
                bad.append('attr case %d: readelf %r mine %r' % (ci, got, mine))
    finally:
        shutil.rmtree(tmp, ignore_errors=True)
    return n, bad


def bulk(ctx, tier, shard, nshards):
    if tier != 'thorough' or shard != 0:
        return
    from vf.core import HarnessError
    if have_referee():
        cases = [c for c in sweep(tier) if c['k'] == 'exidx']
        nfiles, nent, bad = referee(cases)
        ctx.count('referee.exidx_files', nfiles)
        ctx.count('referee.exidx_entries', nent)
        if bad:
            raise HarnessError('llvm-readelf -u disagrees with the C20 encoder/disassembler: %s' % '; '.join(bad[:5]))
    if shutil.which('readelf') is not None:
        n, bad = referee_attr(referee_attr_cases(300, 5))
        ctx.count('referee.attr_files', n)
        if bad:
            raise HarnessError('readelf -A disagrees with the C20 attribute encoder: %s' % '; '.join(bad[:3]))


def floors(ctx):
    c = ctx.counters
    need = ['attr.arch.arm.le.32', 'attr.arch.arm.be.32', 'attr.arch.riscv.le.64', 'attr.arch.riscv.be.32',
            'attr.kind.u', 'attr.kind.s', 'attr.kind.c', 'attr.kind.a', 'attr.uleb.multibyte', 'attr.uleb.nonminimal',
            'attr.scope.1', 'attr.scope.2', 'attr.scope.3', 'attr.multi_subsec_nonlockstep',
            'exidx.le', 'exidx.be', 'exidx.et.2', 'exidx.et.3', 'exidx.tab_first', 'exidx.tab_after',
            'exidx.disp.bit30=0.bit26=0', 'exidx.disp.bit30=0.bit26=1', 'exidx.disp.bit30=1.bit26=0', 'exidx.disp.bit30=1.bit26=1',
            'exidx.pers.bit30=0.bit26=1', 'exidx.pers.bit30=1.bit26=0',
            'ehabi.b2.uleb_len=1', 'ehabi.b2.uleb_len=2', 'ehabi.b2.uleb_len=3', 'ehabi.b2.uleb_len=4']
    need += ['attr.pattern.%s' % p for p in PATTERNS]
    need += ['exidx.kind.%s' % k for k in ALL_KINDS]
    need += ['exidx.extra_words.%s' % i for i in (0, 1, 2, 3, 4, 5, 6, '7+')]
    need += ['ehabi.op.%s' % x for x in sorted(set(op_class(b) for b in range(256)))]
    return ['counter %s is 0' % k for k in need if not c.get(k)]


if __name__ == '__main__':
    import sys
    from vf import core
    core.use_repo()
    if sys.argv[1:2] == ['referee']:
        tier = sys.argv[2] if len(sys.argv) > 2 else 'quick'
        cs = [c for c in sweep(tier) if c['k'] == 'exidx']
        if len(sys.argv) > 3:
            ch = RndChooser(int(sys.argv[3]))
            cs += [gen_exidx_case(ch, tier) for _ in range(300)]
        nf, ne, bad = referee(cs, verbose=True)
        print('referee: files=%d entries=%d disagreements=%d' % (nf, ne, len(bad)))
        for b in bad[:40]:
            print('  ', b)
        n, bad2 = referee_attr(referee_attr_cases(400, int(sys.argv[3]) if len(sys.argv) > 3 else 5))
        print('referee attr: files=%d disagreements=%d' % (n, len(bad2)))
        for b in bad2[:10]:
            print('  ', b[:1500])
        sys.exit(2 if bad or bad2 else 0)

"""C15 - GNU symbol-version sections (.gnu.version_d, .gnu.version_r, .gnu.version).

Model -> own struct.pack encoders for Elf_Verdef/Verdaux/Verneed/Vernaux/Versym (layouts from the Oracle
"Linker and Libraries Guide", ch. 13 "Versioning Sections" == glibc elf.h; identical in both classes) ->
embedded into an ELF file by vf/enc/elf.py -> decoded with the library -> compared with the model.

Record placement inside a version section: the first entry sits at section offset 0 (the format has no pointer
to it); every other record is reached through an unsigned displacement (vd_next/vn_next from the previous
entry, vd_aux/vn_aux from the owning entry, vda_next/vna_next from the previous auxiliary), so any placement
that is a linear extension of   E0 < E1 < ... ,  Ei < A(i,0) < A(i,1) < ...   is well-formed: padding between
records, auxiliaries of different entries interleaved, all entries before all auxiliaries, ...
"""
import io
import os
import re
import random
import struct
import subprocess

from vf import streams
from vf.enc import elf as W
from vf.choose import RndChooser, composite_from

ID = 'C15'
RULE = ('Models of .gnu.version_d / .gnu.version_r (0..12 entries, thorough 0..40, x 1..5 auxiliaries, arbitrary u16/u32 field values, '
        'index assignments with duplicates, gaps, 0 and the hidden bit 0x8000) and .gnu.version over a .dynsym (0..40 named '
        'symbols, indices incl. 0, 1, 0x8000|n, 0xff00, 0xff01, 0xffff) are encoded by own struct.pack encoders with records '
        'placed in any forward order (dense / padded / all entries first / auxiliary groups in reverse owner order / random '
        'linear extension with interleaved auxiliaries), padding 0..64 bytes (thorough up to 4096) filled with junk, embedded in an ELF file (both classes, '
        'both byte orders, permuted section indices and file placement, 2-3 string tables holding the same names at '
        'different offsets so that the linked one matters) and decoded through num_versions / iter_versions / get_version '
        '(hits, misses, hidden-bit toggles) / has_indexes (first called before the walks, after them, or after the queries) / num_symbols / get_symbol / iter_symbols; every field, name and '
        'lookup result is compared with the model. Non-trivial: a definition or requirement section with >= 2 entries and '
        'at least one displacement that differs from the dense layout (so following links and assuming contiguity '
        'differ). Distinct by SHA-1 of encoded file + queries.')
N = {'quick': 2000, 'thorough': 100000}
ASSUMPTIONS = [
    'first record of a version section is at section offset 0; all *_next/*_aux displacements are forward (unsigned), records do not overlap and are 4-byte aligned',
    'vd_cnt/vn_cnt >= 1 and equal to the length of the auxiliary chain; sh_info equals the number of entries; last vd_next/vn_next/vda_next/vna_next is 0',
    'sh_link of verdef/verneed names a SHT_STRTAB, sh_link of versym names a SHT_DYNSYM; versym has sh_entsize 2 and as many entries as the dynsym has symbols',
    'all names are valid UTF-8 and NUL-terminated inside the linked string table',
    'versym index 0 and 1 must be reported as VER_NDX_LOCAL / VER_NDX_GLOBAL (test_gnuversions, scripts/readelf.py rely on it); 0xff00/0xff01 may be reported by their elf.h names or raw; every other value raw',
    'get_version with duplicated indices: any entry carrying the index is accepted',
    'encoders refereed by binutils readelf -V on the sweep (offsets, counts, indices, names); absent tool => skipped',
]

SHT_STRTAB, SHT_DYNSYM, SHT_PROGBITS = 3, 11, 1
SHT_GNU_verdef, SHT_GNU_verneed, SHT_GNU_versym = 0x6ffffffd, 0x6ffffffe, 0x6fffffff

VERDEF_SIZE, VERDAUX_SIZE, VERNEED_SIZE, VERNAUX_SIZE, VERSYM_SIZE = 20, 8, 16, 16, 2

# glibc elf.h "Versym symbol index values"
VER_NDX_NAMES = {0: 'VER_NDX_LOCAL', 1: 'VER_NDX_GLOBAL', 0xff00: 'VER_NDX_LORESERVE', 0xff01: 'VER_NDX_ELIMINATE'}
VER_NDX_MUST_NAME = (0, 1)

DEF_FIELDS = ('vd_version', 'vd_flags', 'vd_ndx', 'vd_cnt', 'vd_hash', 'vd_aux', 'vd_next')
DAUX_FIELDS = ('vda_name', 'vda_next')
NEED_FIELDS = ('vn_version', 'vn_cnt', 'vn_file', 'vn_aux', 'vn_next')
NAUX_FIELDS = ('vna_hash', 'vna_flags', 'vna_other', 'vna_name', 'vna_next')


# ---------------------------------------------------------------------------
# encoders (Oracle LLG ch.13 / glibc elf.h)

def E(le):
    return '<' if le else '>'


def enc_verdef(le, r):
    return struct.pack(E(le) + 'HHHHIII', *[r[f] for f in DEF_FIELDS])


def enc_verdaux(le, r):
    return struct.pack(E(le) + 'II', *[r[f] for f in DAUX_FIELDS])


def enc_verneed(le, r):
    return struct.pack(E(le) + 'HHIII', *[r[f] for f in NEED_FIELDS])


def enc_vernaux(le, r):
    return struct.pack(E(le) + 'IHHII', *[r[f] for f in NAUX_FIELDS])


def enc_versym(le, ndx):
    return struct.pack(E(le) + 'H', ndx)


KIND = {
    'def': dict(esize=VERDEF_SIZE, asize=VERDAUX_SIZE, efields=DEF_FIELDS, afields=DAUX_FIELDS, eenc=enc_verdef,
                aenc=enc_verdaux, p='vd', ap='vda', cls='GNUVerDefSection', sht=SHT_GNU_verdef, name='.gnu.version_d'),
    'need': dict(esize=VERNEED_SIZE, asize=VERNAUX_SIZE, efields=NEED_FIELDS, afields=NAUX_FIELDS, eenc=enc_verneed,
                 aenc=enc_vernaux, p='vn', ap='vna', cls='GNUVerNeedSection', sht=SHT_GNU_verneed, name='.gnu.version_r'),
}


def layout_records(kind, vs):
    """Place the records of one version section.  vs = {'entries': [...], 'place': [[i, j, pad], ...], 'tail': n,
    'fill': byte}; j == -1 is entry i itself, j >= 0 its j-th auxiliary.  -> (size, eoff[i], aoff[i][j])."""
    K = KIND[kind]
    ents = vs['entries']
    counts = [len(e['aux']) for e in ents]
    eoff = [None] * len(ents)
    aoff = [[None] * c for c in counts]
    pos = 0
    for n, (i, j, pad) in enumerate(vs['place']):
        assert pad >= 0 and pad % 4 == 0 and (n > 0 or pad == 0), 'bad padding in generator'
        pos += pad
        if j < 0:
            assert eoff[i] is None and (i == 0 or eoff[i - 1] is not None), 'entry order is not forward'
            assert i > 0 or pos == 0, 'first entry must be at offset 0'
            eoff[i] = pos
            pos += K['esize']
        else:
            assert aoff[i][j] is None and eoff[i] is not None and (j == 0 or aoff[i][j - 1] is not None), 'aux order is not forward'
            aoff[i][j] = pos
            pos += K['asize']
    assert all(o is not None for o in eoff) and all(o is not None for row in aoff for o in row), 'record not placed'
    # an entry may SHARE the head of another entry's auxiliary chain (share = [owner, count]): it has no records of its own, its aux
    # displacement leads to the owner's first auxiliary and its count says how many of them belong to it
    for i, e in enumerate(ents):
        if e.get('share'):
            k, cnt = e['share']
            assert not e['aux'] and not ents[k].get('share') and 1 <= cnt <= counts[k] and aoff[k][0] > eoff[i], 'bad sharing in generator'
            aoff[i] = aoff[k][:cnt]
    assert all(len(row) >= 1 for row in aoff), 'entry without auxiliary'
    return pos, eoff, aoff


def encode_version_section(kind, le, vs, stroffs):
    """-> (bytes, expected) ; expected = list of {'fields': {...}, 'name': str|None, 'off': o,
    'aux': [{'fields': {...}, 'name': str, 'off': o}]} in chain order."""
    K = KIND[kind]
    p, ap = K['p'], K['ap']
    ents = vs['entries']
    size, eoff, aoff = layout_records(kind, vs)
    fill = vs.get('fill', 0xCC)
    buf = bytearray([fill]) * size
    exp = []
    for i, e in enumerate(ents):
        n = len(aoff[i])
        if kind == 'def':
            f = {'vd_version': e['version'], 'vd_flags': e['flags'], 'vd_ndx': e['ndx'], 'vd_cnt': n, 'vd_hash': e['hash']}
            name = None
        else:
            f = {'vn_version': e['version'], 'vn_cnt': n, 'vn_file': stroffs[e['file']]}
            name = e['file']
        f[p + '_aux'] = aoff[i][0] - eoff[i]
        f[p + '_next'] = (eoff[i + 1] - eoff[i]) if i + 1 < len(ents) else 0
        buf[eoff[i]:eoff[i] + K['esize']] = K['eenc'](le, f)
        auxs = []
        for j, a in enumerate(e['aux']):
            if kind == 'def':
                g = {'vda_name': stroffs[a['name']]}
            else:
                g = {'vna_hash': a['hash'], 'vna_flags': a['flags'], 'vna_other': a['other'], 'vna_name': stroffs[a['name']]}
            g[ap + '_next'] = (aoff[i][j + 1] - aoff[i][j]) if j + 1 < n else 0
            buf[aoff[i][j]:aoff[i][j] + K['asize']] = K['aenc'](le, g)
            auxs.append({'fields': g, 'name': a['name'], 'off': aoff[i][j]})
        exp.append({'fields': f, 'name': name, 'off': eoff[i], 'aux': auxs})
    for i, e in enumerate(ents):
        if e.get('share'):
            exp[i]['aux'] = [dict(a) for a in exp[e['share'][0]]['aux'][:e['share'][1]]]
    tail = bytes((fill ^ (k * 37 + 1)) & 0xff for k in range(vs.get('tail', 0)))
    return bytes(buf) + tail, exp


def is_dense(kind, exp):
    K = KIND[kind]
    p, ap = K['p'], K['ap']
    for i, e in enumerate(exp):
        n = len(e['aux'])
        if e['fields'][p + '_aux'] != K['esize']:
            return False
        if i + 1 < len(exp) and e['fields'][p + '_next'] != K['esize'] + n * K['asize']:
            return False
        for j, a in enumerate(e['aux']):
            if j + 1 < n and a['fields'][ap + '_next'] != K['asize']:
                return False
    return True


def build_file(case):
    """-> (file bytes, info) ; info: section indices, expected tables."""
    cls, le = case['cls'], case['le']
    names = case['names']
    assert len(set(names)) == len(names)
    # string tables
    strs = []
    for st_ in case['strtabs']:
        order = [names[k] for k in st_['perm']]
        assert sorted(st_['perm']) == list(range(len(names)))
        blob, offs = W.build_strtab(order, share_suffix=st_.get('share', False), lead=b'\0' + bytes(st_.get('lead', b'')))
        for nm in names:   # self-check of the string table builder
            b = nm.encode('utf-8')
            assert blob[offs[nm]:offs[nm] + len(b) + 1] == b + b'\0'
        strs.append((blob, offs))
    roles = list(case['sec_order'])
    idx = {r: k + 1 for k, r in enumerate(roles)}
    secs = [{'name': '', 'sh_type': 0}]
    info = {'idx': idx}
    for r in roles:
        if r.startswith('str'):
            k = int(r[3:])
            s = {'name': ('.dynstr', '.strtab', '.strtab2')[k], 'sh_type': SHT_STRTAB, 'sh_flags': 2, 'data': strs[k][0], 'sh_addralign': 1}
        elif r == 'shstr':
            s = {'name': '.shstrtab', 'sh_type': SHT_STRTAB, 'data': b''}
        elif r == 'junk':
            s = {'name': '.junk', 'sh_type': SHT_PROGBITS, 'data': bytes(case.get('junk', b''))}
        elif r == 'dynsym':
            d = case['dynsym']
            offs = strs[d['strtab']][1]
            # sh_entsize may exceed the size of Elf_Sym (the gABI gives every table its entry size in the header): entries are then padded,
            # and whoever reads a symbol of this table on behalf of the version section has to step by the table's own entry size
            sympad = d.get('sympad', 0)
            data = b''.join(W.enc_sym(cls, le, offs[s_['name']], s_['value'], s_['size'], s_['info'], s_['other'], s_['shndx']) + bytes((0xa5 + k) & 0xff for k in range(sympad))
                            for s_ in d['syms'])
            s = {'name': '.dynsym', 'sh_type': SHT_DYNSYM, 'sh_flags': 2, 'data': data, 'sh_entsize': W.SYM_SIZE[cls] + sympad,
                 'sh_link': idx['str%d' % d['strtab']], 'sh_info': 1 if d['syms'] else 0, 'sh_addralign': cls // 8}
            info['symnames'] = [s_['name'] for s_ in d['syms']]
        elif r == 'versym':
            v = case['versym']
            data = b''.join(enc_versym(le, x) for x in v['ndx'])
            s = {'name': '.gnu.version', 'sh_type': SHT_GNU_versym, 'sh_flags': 2, 'data': data, 'sh_entsize': VERSYM_SIZE,
                 'sh_link': idx['dynsym'], 'sh_addralign': 2}
        elif r in ('def', 'need'):
            vs = case[r]
            data, exp = encode_version_section(r, le, vs, strs[vs['strtab']][1])
            s = {'name': KIND[r]['name'], 'sh_type': KIND[r]['sht'], 'sh_flags': 2, 'data': data,
                 'sh_link': idx['str%d' % vs['strtab']], 'sh_info': len(vs['entries']), 'sh_addralign': 4}
            info[r] = exp
            info[r + '_data'] = data
        else:
            raise AssertionError(r)
        s['sh_addr'] = 0x1000 * idx[r]
        secs.append(s)
    if case.get('with_dynamic') and case.get('order') is None:
        # a .dynamic section whose DT_VERSYM / DT_VERDEF / DT_VERNEED tags name the version sections (what every linked file has): the
        # tags say where the tables are, they do not change what an entry means
        tags = []
        for r, tag, cnt in (('versym', 0x6ffffff0, None), ('def', 0x6ffffffc, 0x6ffffffd), ('need', 0x6ffffffe, 0x6fffffff)):
            if r in idx:
                tags.append((tag, 0x1000 * idx[r]))
                if cnt:
                    tags.append((cnt, len(case[r]['entries'])))
        tags.append((0, 0))
        dynd = b''.join(struct.pack(W.E(le) + ('II' if cls == 32 else 'QQ'), t, v) for t, v in tags)
        secs.append({'name': '.dynamic', 'sh_type': 6, 'sh_flags': 3, 'sh_addr': 0x1000 * len(secs), 'sh_entsize': 8 if cls == 32 else 16,
                     'sh_link': idx.get('str0', 0), 'data': dynd, 'sh_addralign': cls // 8})
    m = {'cls': cls, 'le': le, 'e_type': case.get('e_type', 3), 'e_machine': case.get('e_machine', 62), 'osabi': case.get('osabi', 0), 'sections': secs, 'segments': [],
         'shstrndx': idx['shstr'], 'order': case.get('order'), 'gaps': case.get('gaps', {}), 'tail': case.get('tail', 0)}
    data, R = W.build(m)
    info['R'] = R
    return data, info


# ---------------------------------------------------------------------------
# comparison

_lib = {}


def lib():
    if not _lib:
        from elftools.elf.elffile import ELFFile
        _lib['ELFFile'] = ELFFile
    return _lib


def _isint(x):
    return isinstance(x, int) and not isinstance(x, bool)


def _rec_fields(obj, fields):
    """library record -> {field: value} (missing field => KeyError propagates to the caller's guard)."""
    return {f: obj[f] for f in fields}


def _find_record(loc, enc, le, got, fields, exp_off):
    """Where in the file do the bytes of the decoded record sit (other than the expected place)?  Occurrences inside
    the section are preferred.  -> offset relative to the section start, or None."""
    filedata, sec_off, sec_len = loc
    try:
        if not all(_isint(got[f]) for f in fields):
            return None
        blob = enc(le, got)
    except Exception:  # noqa
        return None
    found = []
    k = filedata.find(blob)
    while k >= 0 and len(found) < 64:
        if k != sec_off + exp_off:
            found.append(k - sec_off)
        k = filedata.find(blob, k + 1)
    inside = [o for o in found if 0 <= o < sec_len]
    return inside[0] if inside else (found[0] if found else None)


def cmp_record(ctx, case, what, via, got, exp_fields, fields, where, loc, enc, exp_off):
    """Compare one decoded record.  Returns True when it is the expected record.
    via: the link through which the record is reached (names the misfollowed displacement)."""
    bad = [f for f in fields if not (_isint(got[f]) and got[f] == exp_fields[f])]
    if not bad:
        return True
    at = _find_record(loc, enc, case['le'], got, fields, exp_off)
    if at is not None:
        ctx.fail('%s|wrong-offset|via=%s' % (what, via),
                 '%s: expected the record at section offset %#x %r; decoded %r, the bytes found at section offset %#x' % (
                     where, exp_off, exp_fields, got, at), case)
    else:
        ctx.fail('%s|fields|%s' % (what, '+'.join(bad)), '%s (section offset %#x): encoded %r decoded %r' % (
            where, exp_off, exp_fields, got), case)
    return False


def cmp_aux_chain(ctx, case, kind, what, aux_iter, exp_aux, where, loc):
    """Consume an auxiliary iterator and compare the chain.  -> True if identical."""
    K = KIND[kind]
    p, ap = K['p'], K['ap']
    lst = []
    exc = None
    try:
        for a in aux_iter:
            lst.append(a)
            if len(lst) > len(exp_aux) + 2:
                break
    except Exception as e:  # noqa
        exc = e     # judged after the records obtained so far: a wrong record explains a later exception
    ok = True
    for j, (a, ea) in enumerate(zip(lst, exp_aux)):
        w = '%s aux[%d]' % (where, j)
        try:
            got = _rec_fields(a, K['afields'])
            nm = a.name
        except Exception as e:  # noqa
            ctx.fail_exc('%s.aux|shape' % what, e, case, w)
            return False
        via = (p + '_aux') if j == 0 else (ap + '_next')
        if not cmp_record(ctx, case, '%s.aux' % what, via, got, ea['fields'], K['afields'], w, loc, K['aenc'], ea['off']):
            return False    # the rest of the chain hangs off a wrong record
        if nm != ea['name']:
            ctx.fail('%s.aux|name' % what, '%s: name offset %#x is %r in the linked string table, reported %r' % (
                w, ea['fields'][ap + '_name'], ea['name'], nm), case)
            ok = False
    if exc is not None:
        ctx.fail_exc('%s.aux-walk|via=%s' % (what, (p + '_aux') if not lst else (ap + '_next')), exc, case,
                     '%s after %d of %d auxiliaries' % (where, len(lst), len(exp_aux)))
        return False
    if len(lst) != len(exp_aux):
        ctx.fail('%s.aux|count' % what, '%s: %d auxiliaries encoded, %s yielded' % (
            where, len(exp_aux), len(lst) if len(lst) <= len(exp_aux) + 2 else 'more'), case)
        ok = False
    return ok


def cmp_entry(ctx, case, kind, what, via, ver, exp, where, loc):
    K = KIND[kind]
    try:
        got = _rec_fields(ver, K['efields'])
        nm = ver.name
    except Exception as e:  # noqa
        ctx.fail_exc('%s.entry|shape' % what, e, case, where)
        return False
    if not cmp_record(ctx, case, '%s.entry' % what, via, got, exp['fields'], K['efields'], where, loc, K['eenc'], exp['off']):
        return False
    if kind == 'need' and nm != exp['name']:
        ctx.fail('%s.entry|name' % what, '%s: vn_file %#x is %r in the linked string table, reported %r' % (
            where, exp['fields']['vn_file'], exp['name'], nm), case)
        return False
    return True


def check_version_section(ctx, case, kind, sec, exp, loc, queries, fresh=None):
    K = KIND[kind]
    p = K['p']
    what = 'ver' + kind
    if type(sec).__name__ != K['cls']:
        ctx.fail('%s|class' % what, 'section object is %s' % type(sec).__name__, case)
        return
    # has_indexes is memoised: its first call comes before anything else on the section object, after the walks, or
    # after the get_version queries (hi_mode); a last call always follows the queries and must repeat the first answer.  A result obtained before the walk is only judged once the walk is known
    # to be right (a wrong walk makes has_indexes/get_version wrong as a consequence, not as a separate cause).
    exp_hi = any(a['fields']['vna_other'] != 0 for e in exp for a in e['aux']) if kind == 'need' else None
    hi_calls = []

    def call_hi(tag):
        try:
            hi_calls.append((tag, 'ok', sec.has_indexes()))
        except Exception as e:  # noqa
            hi_calls.append((tag, 'exc', e))

    hi_mode = case.get('hi_mode', 'after-walk') if kind == 'need' else None
    if hi_mode == 'first':
        call_hi('first-call-before-walks')
    clean = True
    nv_ok = False
    try:
        n = sec.num_versions()
        if n != len(exp):
            ctx.fail('%s.num_versions' % what, 'sh_info %d reported %r' % (len(exp), n), case)
        else:
            nv_ok = True
    except Exception as e:  # noqa
        ctx.fail_exc('%s.num_versions' % what, e, case)

    # iter_versions, auxiliaries consumed inline or after the outer walk finished
    deferred = case.get('consume') == 'deferred'
    pairs = []
    it = None
    try:
        it = iter(sec.iter_versions())
    except Exception as e:  # noqa
        ctx.fail_exc('%s.iter_versions' % what, e, case)
        clean = False
    walk_exc = None
    while it is not None:
        try:
            ver, aux_it = next(it)
        except StopIteration:
            break
        except Exception as e:  # noqa
            walk_exc = e    # judged after the entries obtained so far: a wrong record explains a later exception
            break
        pairs.append((ver, aux_it if deferred else list_or_exc(aux_it)))
        if len(pairs) > len(exp) + 2:
            break
    for i, ((ver, aux_it), e) in enumerate(zip(pairs, exp)):
        where = '%s entry[%d]' % (K['name'], i)
        via = 'section-start' if i == 0 else p + '_next'
        if not cmp_entry(ctx, case, kind, what + '.iter', via, ver, e, where, loc):
            clean = False
            walk_exc = None
            break   # later entries hang off a wrong record
        if not cmp_aux_chain(ctx, case, kind, what + '.iter', aux_it, e['aux'], where, loc):
            clean = False
    if walk_exc is not None:
        ctx.fail_exc('%s.iter.entry-walk|via=%s' % (what, 'section-start' if not pairs else p + '_next'), walk_exc, case,
                     'after %d of %d entries' % (len(pairs), len(exp)))
        clean = False
    elif clean and len(pairs) != len(exp):
        if nv_ok:   # otherwise a consequence of the wrong num_versions() already reported
            ctx.fail('%s.iter|count' % what, '%d entries encoded, %s yielded' % (
                len(exp), len(pairs) if len(pairs) <= len(exp) + 2 else 'more'), case)
        clean = False
    clean = clean and nv_ok

    if hi_mode == 'after-walk':
        call_hi('first-call-after-walks')
    if not clean:
        ctx.count('skipped.dependent-checks.%s' % kind)
        return

    # get_version
    for q in queries:
        if kind == 'def':
            carriers = [(i, None) for i, e in enumerate(exp) if e['fields']['vd_ndx'] == q]
        else:
            carriers = [(i, j) for i, e in enumerate(exp) for j, a in enumerate(e['aux']) if a['fields']['vna_other'] == q]
        try:
            r = sec.get_version(q)
        except Exception as e:  # noqa
            ctx.fail_exc('%s.get_version|%s' % (what, 'hit' if carriers else 'miss'), e, case, 'index %#x' % q)
            continue
        if not carriers:
            ctx.count('query.%s.miss' % kind)
            if r is not None:
                ctx.fail('%s.get_version|miss|not-none' % what, 'no record carries index %#x, got %s' % (q, _describe(kind, r)), case)
            continue
        ctx.count('query.%s.hit' % kind)
        if len(carriers) > 1:
            ctx.count('query.%s.hit-duplicate' % kind)
        if r is None:
            ctx.fail('%s.get_version|hit|none' % what, 'index %#x is carried by %r, got None' % (q, carriers[:4]), case)
            continue
        try:
            ver, second = r
            gotf = _rec_fields(ver, K['efields'])
            gotn = ver.name
            if kind == 'def':
                gota = [(_rec_fields(a, K['afields']), a.name) for a in second]
            else:
                gota = (_rec_fields(second, K['afields']), second.name)
        except Exception as e:  # noqa
            ctx.fail_exc('%s.get_version|hit|shape' % what, e, case, 'index %#x' % q)
            continue
        match = False
        for (i, j) in carriers:
            e = exp[i]
            if gotf != e['fields']:
                continue
            if kind == 'def':
                match = gota == [(a['fields'], a['name']) for a in e['aux']]
            else:
                a = e['aux'][j]
                match = gota == (a['fields'], a['name']) and gotn == e['name']
            if match:
                break
        if not match:
            ctx.fail('%s.get_version|hit|wrong-result' % what, 'index %#x is carried by (entry, aux) %r; got entry %r name %r with %r' % (
                q, [(c, exp[c[0]]['fields']) for c in carriers][:3], gotf, gotn, gota), case)

    # on the object that already answered everything above, and on a new section object whose first use is the interleaved one
    known = _interleaved_use(ctx, case, kind, what, sec, queries, None)
    if fresh is not None and known is not None:
        try:
            _interleaved_use(ctx, case, kind, what, fresh(), queries, known)
        except Exception as e:  # noqa
            ctx.fail_exc('%s.iter|several-consumers-at-once' % what, e, case)
    if kind != 'need':
        return
    call_hi('first-call-after-queries' if hi_mode == 'last' else 'call-after-queries')
    # has_indexes
    for k, (tag, st_, r) in enumerate(hi_calls):
        if st_ == 'exc':
            ctx.fail_exc('verneed.has_indexes', r, case, tag)
            break
        if k == 0:
            if r is not exp_hi:
                ctx.fail('verneed.has_indexes|wrong', '%s: expected %r got %r (vna_other values %r)' % (
                    tag, exp_hi, r, [a['fields']['vna_other'] for e in exp for a in e['aux']][:20]), case)
            ctx.count('has_indexes.%s' % exp_hi)
        elif r is not hi_calls[0][2]:
            ctx.fail('verneed.has_indexes|second-call-differs', '%s %r, %s %r' % (hi_calls[0][0], hi_calls[0][2], tag, r), case)


def _interleaved_use(ctx, case, kind, what, sec, queries, known):
    """Only reached when the plain walk and the queries were right.  One section object, several consumers at once: an outer
    iter_versions() generator is suspended while a complete nested walk, get_version queries and (verneed) has_indexes run on the same
    object; then the outer one is finished.  Every walk, and one more plain walk afterwards, must yield what the plain walk yielded."""
    def flat(it):
        return [(dict(v.entry), v.name, [(dict(a.entry), a.name) for a in auxs]) for v, auxs in it]
    def qcanon(q):
        r = sec.get_version(q)
        if r is None:
            return None
        if kind == 'def':
            return (dict(r[0].entry), r[0].name, [(dict(a.entry), a.name) for a in r[1]])
        return (dict(r[0].entry), r[0].name, dict(r[1].entry), r[1].name)
    try:
        if known is None:
            plain = flat(sec.iter_versions())
            before_q = [qcanon(q) for q in list(queries)[:6]]
        else:
            plain, before_q = known             # first use of this object: nothing has walked it yet
        outer = iter(sec.iter_versions())
        head = flat([x for x in [next(outer, None)] if x is not None])
        nested = flat(sec.iter_versions())
        for q in list(queries)[:3]:
            r = sec.get_version(q)
            if r is not None and kind == 'def':
                list(r[1])
        if kind == 'need':
            sec.has_indexes()
        lock = iter(sec.iter_versions())      # a second suspended walk, advanced in lock step with the outer one
        rest = []
        for x in outer:
            rest += flat([x])
            y = next(lock, None)
            if y is not None:
                list(y[1])
        after = flat(sec.iter_versions())
        for tag, got in (('nested walk while another one is suspended', nested), ('walk that was suspended during other calls', head + rest),
                         ('plain walk after the interleaved ones', after)):
            if got != plain:
                ctx.fail('%s.iter|several-consumers-at-once' % what, '%s: %d entries (plain walk: %d)%s' % (
                    tag, len(got), len(plain), '' if len(got) != len(plain) else ', different contents'), case)
                break
        after_q = [qcanon(q) for q in list(queries)[:6]]
        if after_q != before_q:
            k = next(i for i, (a, b) in enumerate(zip(before_q, after_q)) if a != b)
            ctx.fail('%s.get_version|after-interleaved-walks' % what, 'index %#x: before the interleaved walks %r, after them %r' % (
                list(queries)[k], before_q[k], after_q[k]), case)
        if len(plain) >= 2:
            ctx.count('interleaved.%s' % kind)
        return plain, before_q
    except Exception as e:  # noqa
        ctx.fail_exc('%s.iter|several-consumers-at-once' % what, e, case)
        return None


class _Raised:
    """An auxiliary iterator that failed while being consumed inline: re-raises when walked by cmp_aux_chain."""
    def __init__(self, items, exc):
        self.items, self.exc = items, exc

    def __iter__(self):
        for x in self.items:
            yield x
        raise self.exc


def list_or_exc(aux_it):
    out = []
    try:
        for a in aux_it:
            out.append(a)
            if len(out) > 64:
                break
    except Exception as e:  # noqa
        return _Raised(out, e)
    return out


def _describe(kind, r):
    try:
        ver, second = r
        return 'entry %r name %r with %r' % (dict(ver.entry), getattr(ver, 'name', None),
                                             '<iterator>' if kind == 'def' else (dict(second.entry), second.name))
    except Exception:  # noqa
        return repr(r)


def check_ndx(got, enc):
    """-> None if acceptable, else complaint key."""
    if isinstance(got, str):
        return None if VER_NDX_NAMES.get(enc) == got else 'name-for-other-value'
    if _isint(got):
        if got != enc:
            return 'value'
        return 'reserved-value-not-named' if enc in VER_NDX_MUST_NAME else None
    return 'bad-type'


def check_versym(ctx, case, sec, ndxs, symnames):
    if type(sec).__name__ != 'GNUVerSymSection':
        ctx.fail('versym|class', 'section object is %s' % type(sec).__name__, case)
        return
    try:
        n = sec.num_symbols()
        if n != len(ndxs):
            ctx.fail('versym.num_symbols', '%d entries encoded, reported %r' % (len(ndxs), n), case)
    except Exception as e:  # noqa
        ctx.fail_exc('versym.num_symbols', e, case)

    seen = {}
    clean = True
    order = case.get('sym_query_order')
    if order is None:
        order = list(range(len(ndxs)))
    for i in order:
        try:
            sym = sec.get_symbol(i)
            g, nm = sym['ndx'], sym.name
        except Exception as e:  # noqa
            ctx.fail_exc('versym.get_symbol', e, case, 'entry %d of %d' % (i, len(ndxs)))
            clean = False
            continue
        seen[i] = (g, nm)
        c = check_ndx(g, ndxs[i])
        if c:
            ctx.fail('versym.entry|ndx|%s' % c, 'get_symbol(%d): encoded %#x reported %r' % (i, ndxs[i], g), case)
            clean = False
        if nm != symnames[i]:
            ctx.fail('versym.entry|name', 'get_symbol(%d): dynsym[%d] is named %r, reported %r (names %r)' % (
                i, i, symnames[i], nm, symnames[:8]), case)
            clean = False
        ctx.count('versym.ndx.%s' % ('named' if isinstance(g, str) else 'hidden' if ndxs[i] & 0x8000 else 'plain'))
    # iter_symbols must give the same sequence; it is only judged on its own when get_symbol was right
    try:
        lst = []
        for sym in sec.iter_symbols():
            lst.append((sym['ndx'], sym.name))
            if len(lst) > len(ndxs) + 2:
                break
    except Exception as e:  # noqa
        if clean:
            ctx.fail_exc('versym.iter_symbols', e, case)
        return
    if not clean:
        return
    if len(lst) != len(ndxs):
        ctx.fail('versym.iter_symbols|count', '%d entries encoded, %s yielded' % (
            len(ndxs), len(lst) if len(lst) <= len(ndxs) + 2 else 'more'), case)
        return
    for i, pair in enumerate(lst):
        if pair != seen.get(i):
            ctx.fail('versym.iter_symbols|differs-from-get_symbol', 'position %d: iter_symbols gives %r, get_symbol(%d) gave %r' % (
                i, pair, i, seen.get(i)), case)
            break


def run_far(ctx, case):
    """Version sections whose displacements (vd_aux / vd_next / vda_next, vn_aux / vn_next / vna_next: all unsigned 32-bit words) are at
    or above 2**31, in a file held by a sparse stream.  Written by hand: one section per kind, two entries, two auxiliaries each."""
    from vf.enc.sparse import sparse_elf
    cls, le, far = case['cls'], case['le'], case['far']
    strtab = b'\0libfar.so\0FAR_1.0\0FAR_2.0\0base\0'
    so = {n: strtab.index(n.encode() + b'\0') for n in ('libfar.so', 'FAR_1.0', 'FAR_2.0', 'base')}
    secs = [{'name': '.dynstr', 'sh_type': 3, 'offset': 0x400, 'size': len(strtab), 'chunks': {0: strtab}}]
    size = far + 0x200
    exp = {}
    # entry0 at 0: its auxiliaries at +far (vd_aux / vn_aux >= 2**31), the second entry at +far+0x100 (vd_next / vn_next >= 2**31)
    d0 = {'vd_version': 1, 'vd_flags': 1, 'vd_ndx': 1, 'vd_cnt': 2, 'vd_hash': 0x1234, 'vd_aux': far, 'vd_next': far + 0x100}
    d1 = {'vd_version': 1, 'vd_flags': 0, 'vd_ndx': 2, 'vd_cnt': 1, 'vd_hash': 0x5678, 'vd_aux': 0x20, 'vd_next': 0}
    chunks = {0: enc_verdef(le, d0), far: enc_verdaux(le, {'vda_name': so['base'], 'vda_next': 0x40}),
              far + 0x40: enc_verdaux(le, {'vda_name': so['FAR_1.0'], 'vda_next': 0}),
              far + 0x100: enc_verdef(le, d1), far + 0x120: enc_verdaux(le, {'vda_name': so['FAR_2.0'], 'vda_next': 0})}
    secs.append({'name': '.gnu.version_d', 'sh_type': SHT_GNU_verdef, 'offset': 0x1000, 'size': size, 'sh_link': 1, 'sh_info': 2, 'chunks': chunks})
    exp['def'] = [(d0, ['base', 'FAR_1.0']), (d1, ['FAR_2.0'])]
    n0 = {'vn_version': 1, 'vn_cnt': 2, 'vn_file': so['libfar.so'], 'vn_aux': far, 'vn_next': far + 0x100}
    n1 = {'vn_version': 1, 'vn_cnt': 1, 'vn_file': so['libfar.so'], 'vn_aux': 0x20, 'vn_next': 0}
    a = [{'vna_hash': 1, 'vna_flags': 0, 'vna_other': 3, 'vna_name': so['FAR_1.0'], 'vna_next': 0x40},
         {'vna_hash': 2, 'vna_flags': 0, 'vna_other': 4, 'vna_name': so['FAR_2.0'], 'vna_next': 0},
         {'vna_hash': 3, 'vna_flags': 0, 'vna_other': 5, 'vna_name': so['base'], 'vna_next': 0}]
    chunks = {0: enc_verneed(le, n0), far: enc_vernaux(le, a[0]), far + 0x40: enc_vernaux(le, a[1]), far + 0x100: enc_verneed(le, n1),
              far + 0x120: enc_vernaux(le, a[2])}
    base2 = 0x1000 + size + 0x1000
    secs.append({'name': '.gnu.version_r', 'sh_type': SHT_GNU_verneed, 'offset': base2, 'size': size, 'sh_link': 1, 'sh_info': 2, 'chunks': chunks})
    exp['need'] = [(n0, ['FAR_1.0', 'FAR_2.0']), (n1, ['base'])]
    stream, _ = sparse_elf(cls, le, secs)
    try:
        ef = lib()['ELFFile'](stream)
        for kind, idx in (('def', 2), ('need', 3)):
            sec = ef.get_section(idx)
            got = [({k: v.entry[k] for k in e}, [x.name for x in auxs]) for (v, auxs), (e, _) in zip(sec.iter_versions(), exp[kind])]
            if got != exp[kind] or sec.num_versions() != 2:
                ctx.fail('far|ver%s|iter' % kind, 'displacements of %#x: expected %r got %r' % (far, exp[kind], got), case)
            for q in ((1, 2) if kind == 'def' else (3, 4, 5)):
                r = sec.get_version(q)
                want = next(((e, n) for e, n in exp[kind] if e.get('vd_ndx') == q), None) if kind == 'def' else q
                if r is None:
                    ctx.fail('far|ver%s|get_version' % kind, 'index %d not found (displacements of %#x)' % (q, far), case)
                elif kind == 'def' and [x.name for x in r[1]] != want[1]:
                    ctx.fail('far|verdef|get_version', 'index %d: names %r' % (q, want[1]), case)
                elif kind == 'need' and r[1].entry['vna_other'] != q:
                    ctx.fail('far|verneed|get_version', 'index %d: got the auxiliary with vna_other %r' % (q, r[1].entry['vna_other']), case)
    except Exception as e:  # noqa
        ctx.fail_exc('far', e, case)
    ctx.count('far.displacements')
    ctx.case(('far', cls, le, far), True, dict(case))


def run_case(ctx, case):
    if case.get('far'):
        return run_far(ctx, case)
    data, info = build_file(case)      # an exception here is a generator/encoder bug -> harness error
    ELFFile = lib()['ELFFile']
    idx = info['idx']
    try:
        st0, skind = streams.pick(data)        # BytesIO, minimal read/seek/tell object, memory map or real file
        ctx.count('stream.' + skind)
        ef = ELFFile(st0)
    except Exception as e:  # noqa
        ctx.fail_exc('open', e, case)
        _register(ctx, case, info, data)
        return
    for kind in ('def', 'need'):
        if kind not in idx:
            continue
        try:
            sec = ef.get_section(idx[kind])
        except Exception as e:  # noqa
            ctx.fail_exc('ver%s.get_section' % kind, e, case)
            continue
        loc = (data, info['R']['sh'][idx[kind]]['sh_offset'], len(info[kind + '_data']))
        check_version_section(ctx, case, kind, sec, info[kind], loc, case['queries'].get(kind, []),
                              fresh=lambda kind=kind: ef.get_section(idx[kind]))
    if 'versym' in idx:
        try:
            sec = ef.get_section(idx['versym'])
        except Exception as e:  # noqa
            ctx.fail_exc('versym.get_section', e, case)
            sec = None
        if sec is not None:
            check_versym(ctx, case, sec, case['versym']['ndx'], info['symnames'])
            if case.get('with_dynamic') and case.get('order') is None:
                # the same tables in a file without the .dynamic section: every entry is reported the same way
                try:
                    data2, info2 = build_file(dict(case, with_dynamic=False))
                    sec2 = ELFFile(io.BytesIO(data2)).get_section(info2['idx']['versym'])
                    a = [(repr(x['ndx']), x.name) for x in sec.iter_symbols()]
                    b = [(repr(x['ndx']), x.name) for x in sec2.iter_symbols()]
                    if a != b:
                        k = next((i for i, (x, y) in enumerate(zip(a, b)) if x != y), min(len(a), len(b)))
                        ctx.fail('versym.entry|depends-on-the-presence-of-a-dynamic-section', 'entry %d (encoded %#x): %r with a .dynamic section naming the version tables, %r without' % (
                            k, case['versym']['ndx'][k] if k < len(case['versym']['ndx']) else -1, a[k:k + 1], b[k:k + 1]), case)
                    ctx.count('versym.with-and-without-dynamic-section')
                except Exception as e:  # noqa
                    ctx.fail_exc('versym.with-and-without-dynamic-section', e, case)
    _register(ctx, case, info, data)


def _register(ctx, case, info, data):
    nt = False
    summ = {'cls': case['cls'], 'le': case['le'], 'file_len': len(data)}
    ctx.count('cell.%d%s' % (case['cls'], 'le' if case['le'] else 'be'))
    for kind in ('def', 'need'):
        if kind not in info:
            continue
        exp = info[kind]
        dense = is_dense(kind, exp)
        mode = case[kind].get('mode', '?')
        ctx.count('sec.%s' % kind)
        ctx.count('layout.%s.%s' % (kind, mode))
        if not exp:
            ctx.count('sec.%s.zero-entries' % kind)
        if len(exp) >= 2 and not dense:
            nt = True
            ctx.count('noncontiguous.%s' % kind)
        if any(e.get('share') for e in case[kind]['entries']):
            ctx.count('shared-aux-chain.%s' % kind)
        if any(len(e['aux']) >= 2 for e in exp):
            ctx.count('multi-aux.%s' % kind)
        if kind == 'def':
            vals = [e['fields']['vd_ndx'] for e in exp]
        else:
            vals = [a['fields']['vna_other'] for e in exp for a in e['aux']]
        if len(set(vals)) < len(vals):
            ctx.count('dup-index.%s' % kind)
        if any(v & 0x8000 for v in vals):
            ctx.count('hidden-index.%s' % kind)
        summ[kind] = {'entries': len(exp), 'aux': [len(e['aux']) for e in exp], 'mode': mode, 'dense': dense,
                      'indices': vals[:12], 'section_hex': info[kind + '_data'][:96].hex()}
    if 'versym' in info['idx']:
        ctx.count('sec.versym')
        if not case['versym']['ndx']:
            ctx.count('sec.versym.zero-entries')
        summ['versym'] = case['versym']['ndx'][:16]
    ctx.case([data, case['queries']], nt, summ)


# ---------------------------------------------------------------------------
# generators

NAME_POOL = ['', 'libc.so.6', 'libz.so.1', 'GLIBC_2.2.5', 'GLIBC_2.4', '2.5', 'GLIBC_2.5', 'VER_1.0', 'VER_1.1', 'VER_1.2',
             'lib_versioned.so.1', 'ZLIB_1.2.3.5', 'puts', 'function1', 'function2', '_edata', '__cxa_finalize', 'so.1',
             'V', 'vé_1', 'версия', 'X' * 40, 'libm.so.6', 'GLIBC_PRIVATE', 'a', 'b', 'ab', 'puts@', '_end', '_init']
MODES = ['dense', 'padded', 'entries_first', 'aux_rev_owner', 'shuffled']
PADS = [0, 0, 0, 4, 8, 12, 16, 20, 24, 32, 64]
IDX_POOL = [0, 1, 2, 3, 4, 5, 6, 7, 0x7fff, 0x8000, 0x8001, 0x8002, 0x8005, 0xff00, 0xff01, 0xffff]


def perm_of(ch, seq):
    """Permutation derived deterministically from ONE drawn integer (st.permutations costs a draw per element; the
    case stores the resulting list, so it stays self-contained)."""
    lst = list(seq)
    random.Random(ch.int(0, 0xffffffff)).shuffle(lst)
    return lst


def alt(ch, fixed, rare):
    """One of the fixed values, or (one time in len+1) the value of rare() - drawn only when needed."""
    k = ch.int(0, len(fixed))
    return fixed[k] if k < len(fixed) else rare()


def gen_place(ch, counts, mode, pads=None):
    pads = pads or PADS
    n = len(counts)
    if mode in ('dense', 'padded'):
        seq = [(i, j) for i in range(n) for j in range(-1, counts[i])]
    elif mode == 'entries_first':
        seq = [(i, -1) for i in range(n)] + [(i, j) for i in range(n) for j in range(counts[i])]
    elif mode == 'aux_rev_owner':
        seq = [(i, -1) for i in range(n)] + [(i, j) for i in reversed(range(n)) for j in range(counts[i])]
    else:
        ready = [(0, -1)] if n else []
        seq = []
        while ready:
            i, j = ready.pop(ch.int(0, len(ready) - 1))
            seq.append((i, j))
            if j == -1:
                if i + 1 < n:
                    ready.append((i + 1, -1))
                ready.append((i, 0))
            elif j + 1 < counts[i]:
                ready.append((i, j + 1))
    out = []
    for k, (i, j) in enumerate(seq):
        pad = 0 if (k == 0 or mode == 'dense') else ch.choice(pads)
        out.append([i, j, pad])
    return out


def pick_index(ch):
    k = ch.int(0, 9)
    if k <= 5:
        return ch.int(0, 9)
    if k <= 7:
        return ch.choice(IDX_POOL)
    return ch.int(0, 0xffff)


def gen_indices(ch, n, scheme):
    if scheme == 'seq':
        return [k + 1 for k in range(n)]
    if scheme == 'seq2':
        return [k + 2 for k in range(n)]
    if scheme == 'zero':
        return [0] * n
    if scheme == 'hidden0':     # only 0 and the bare hidden bit: 'has an index' must not depend on the low 15 bits
        return [(0x8000 if k == n - 1 else 0) for k in range(n)]
    if scheme == 'hidden':
        return [(k + 2) | (0x8000 if k % 2 else 0) for k in range(n)]
    return [pick_index(ch) for _ in range(n)]


def gen_queries(ch, vals, full=False):
    cand = []
    for v in vals:
        cand += [v, v ^ 0x8000, v & 0x7fff, (v + 1) & 0xffff]
    cand += [0, 1, 2, 0x8000, 0xffff, (max(vals) + 1) & 0xffff if vals else 3]
    uniq = []
    for c in cand:
        if c not in uniq:
            uniq.append(c)
    if full or len(uniq) <= 10:
        return uniq
    hits = [c for c in uniq if c in vals]
    miss = [c for c in uniq if c not in vals]
    out = []
    for _ in range(5):
        if hits:
            out.append(ch.choice(hits))
    for _ in range(5):
        if miss:
            out.append(ch.choice(miss))
    out.append(ch.int(0, 0xffff))
    res = []
    for c in out:
        if c not in res:
            res.append(c)
    return res


def build_model(ch, tier, force=None):
    """force: dict of fixed choices for the sweep."""
    F = force or {}
    cls = F['cls'] if 'cls' in F else ch.choice([32, 64])
    le = F['le'] if 'le' in F else ch.bool()
    npool = ch.int(6, len(NAME_POOL))
    names = NAME_POOL[:1] + perm_of(ch, NAME_POOL[1:])[:npool - 1]
    nstr = ch.int(2, 3)
    strtabs = []
    for k in range(nstr):
        strtabs.append({'perm': perm_of(ch, range(len(names))), 'share': ch.bool(0.4),
                        'lead': ch.choice([b'', b'', b'x\0', b'lead\0', b'\0\0\0'])})
    full_q = bool(F.get('full_queries'))
    case = {'cls': cls, 'le': le, 'names': names, 'strtabs': strtabs, 'queries': {}}
    present = F.get('present')
    if present is None:
        present = [r for r in ('def', 'need', 'versym') if ch.bool(0.75)] or ['def']
    roles = ['str%d' % k for k in range(nstr)] + ['shstr', 'dynsym']
    big = tier == 'thorough'
    for kind in ('def', 'need'):
        if kind not in present:
            continue
        n = F['n'] if 'n' in F else alt(ch, [0, 1, 2, 2, 3, 5], lambda: ch.int(0, 40 if big else 12))
        counts = F['counts'] if 'counts' in F else [ch.choice([1, 1, 2, 3, 1, 4, 5]) for _ in range(n)]
        mode = F['mode'] if 'mode' in F else ch.choice(MODES)
        scheme = F['scheme'] if 'scheme' in F else ch.choice(['seq', 'seq2', 'hidden', 'hidden0', 'random', 'random', 'random', 'zero'])
        ents = []
        if kind == 'def':
            ix = gen_indices(ch, n, scheme)
            for i in range(n):
                ents.append({'version': alt(ch, [1, 1, 1, 0, 2], lambda: ch.word(16)), 'flags': alt(ch, [0, 0, 1, 2, 3], lambda: ch.word(16)),
                             'ndx': ix[i], 'hash': ch.word(32), 'aux': [{'name': ch.choice(names)} for _ in range(counts[i])]})
            vals = ix
        else:
            ix = gen_indices(ch, sum(counts), scheme)
            k = 0
            for i in range(n):
                aux = []
                for _ in range(counts[i]):
                    aux.append({'hash': ch.word(32), 'flags': alt(ch, [0, 0, 2], lambda: ch.word(16)), 'other': ix[k], 'name': ch.choice(names)})
                    k += 1
                ents.append({'version': alt(ch, [1, 1, 1, 0, 2], lambda: ch.word(16)), 'file': ch.choice(names), 'aux': aux})
            vals = ix
        case[kind] = {'strtab': ch.int(0, nstr - 1), 'entries': ents, 'place': gen_place(ch, counts, mode, PADS + [0x100, 0x1000] if big else PADS), 'mode': mode,
                      'tail': ch.choice([0, 0, 4, 20]), 'fill': alt(ch, [0xCC, 0x00, 0xFF, 0x01], lambda: ch.int(0, 255))}
        owners = [k for k in range(n) if counts[k] >= 2]
        if mode == 'entries_first' and n >= 2 and owners and 'counts' not in F and ch.bool(0.4):
            # all entries precede all auxiliaries in this mode, so any entry can reach any chain with a forward displacement
            k = ch.choice(owners)
            i = ch.choice([x for x in range(n) if x != k])
            ents[i]['aux'] = []
            ents[i]['share'] = [k, ch.int(1, counts[k] - 1) if ch.bool(0.8) else counts[k]]
            pl = [x for x in case[kind]['place'] if not (x[0] == i and x[1] >= 0)]
            pl[0][2] = 0
            case[kind]['place'] = pl
        case['queries'][kind] = gen_queries(ch, vals, full_q)
        roles.append(kind)
    nsym = F['nsym'] if 'nsym' in F else (ch.choice([0, 1, 2, 4, 8]) if ch.bool(0.6) else ch.int(0, 20))
    symn = perm_of(ch, names)
    syms = []
    for k in range(nsym):
        nm = '' if k == 0 else symn[k % len(symn)]
        # the other symbol fields are outside this property (C03): fixed pattern, no draws
        syms.append({'name': nm, 'value': (0x1000 + 0x10 * k) & W.mask(cls), 'size': k * 3, 'info': (0x12, 0x11, 0x10, 0x22, 0)[k % 5],
                     'other': k % 4, 'shndx': (0, 1, 5, 0xfff1)[k % 4]})
    case['dynsym'] = {'strtab': ch.int(0, nstr - 1), 'syms': syms}
    if ch.bool(0.2):
        case['dynsym']['sympad'] = ch.choice([8, 8, 16, 4, 24])
    if 'versym' in present:
        vs = F.get('versym_scheme', 'random')
        if vs == 'boundary':
            nd = [IDX_POOL[k % len(IDX_POOL)] for k in range(nsym)]
        else:
            nd = [pick_index(ch) for _ in range(nsym)]
        case['versym'] = {'ndx': nd}
        case['sym_query_order'] = perm_of(ch, range(nsym)) if ch.bool(0.5) else None
        roles.append('versym')
    if ch.bool(0.5):
        roles.append('junk')
        case['junk'] = ch.bytes(0, 40)
    case['sec_order'] = perm_of(ch, roles)
    case['consume'] = F['consume'] if 'consume' in F else ch.choice(['inline', 'deferred'])
    case['hi_mode'] = ch.choice(['first', 'after-walk', 'last'])
    # file placement
    chunks = list(range(1, len(roles) + 1)) + ['sh']
    case['order'] = perm_of(ch, chunks) if ch.bool(0.6) else None
    case['gaps'] = {str(c): ch.choice([0, 1, 3, 8, 17]) for c in chunks if ch.bool(0.3)}
    case['tail'] = ch.choice([0, 0, 5, 64])
    case['e_machine'] = ch.choice([62, 3, 40, 183, 8, 20])
    # the version sections are a GNU / Solaris extension keyed by section type; what an entry means does not depend on the OS ABI byte,
    # the file type or the machine
    case['osabi'] = ch.choice([0, 0, 3, 6, 6, 9, 12, 97, 255])
    case['with_dynamic'] = ch.bool(0.4)
    case['e_type'] = ch.choice([3, 3, 2, 1])
    return case


strategy = composite_from(build_model)


def sweep(tier):
    cases = []
    seed = 0
    count_sets = {0: [[]], 1: [[1], [3]], 2: [[1, 1], [2, 3]], 5: [[1, 2, 1, 5, 2]], 12: [[1 + (k * 7) % 5 for k in range(12)]]}
    for cls in (32, 64):
        for le in (True, False):
            for kind in ('def', 'need'):
                for n in (0, 1, 2, 5, 12):
                    for counts in count_sets[n]:
                        for mode in MODES:
                            if n == 0 and mode != 'dense':
                                continue
                            for scheme in ('seq', 'hidden', 'hidden0', 'random', 'zero'):
                                seed += 1
                                ch = RndChooser(15000 + seed)
                                cases.append(build_model(ch, tier, {
                                    'cls': cls, 'le': le, 'present': [kind] + (['versym'] if seed % 3 == 0 else []), 'n': n,
                                    'counts': counts, 'mode': mode, 'scheme': scheme, 'full_queries': True,
                                    'nsym': seed % 7, 'consume': ('inline', 'deferred')[seed % 2]}))
            # versym: boundary values, lengths 0..17
            for nsym in (0, 1, 2, 3, 16, 17, 40):
                seed += 1
                ch = RndChooser(15000 + seed)
                cases.append(build_model(ch, tier, {'cls': cls, 'le': le, 'present': ['versym'], 'nsym': nsym,
                                                     'versym_scheme': 'boundary'}))
            # all three sections together
            for mode in MODES:
                seed += 1
                ch = RndChooser(15000 + seed)
                cases.append(build_model(ch, tier, {'cls': cls, 'le': le, 'present': ['def', 'need', 'versym'], 'n': 3,
                                                     'counts': [2, 1, 3], 'mode': mode, 'scheme': 'seq2', 'full_queries': True,
                                                     'nsym': 9}))
    # displacements at and above 2**31 (sparse file)
    for k, far in enumerate((0x7fffff00, 0x80000040, 0xaaaaaaa0, 0xfffffe00)):
        cases.append({'far': far, 'cls': 64, 'le': bool(k % 2)})
    return cases


# ---------------------------------------------------------------------------
# referee for the encoders: binutils readelf -V (never a violation; disagreement = harness error)

READELF = '/usr/bin/readelf'
_ASCII = re.compile(r'^[\x21-\x7e]*$')


def referee_case(case):
    """-> (complaints, checked_items).  Only ASCII names (readelf escapes the others)."""
    data, info = build_file(case)
    path = '/tmp/vf_c15_referee_%d.elf' % os.getpid()
    with open(path, 'wb') as f:
        f.write(data)
    try:
        r = subprocess.run([READELF, '-V', '-W', path], stdout=subprocess.PIPE, stderr=subprocess.PIPE, text=True,
                           errors='replace', env={'LC_ALL': 'C'}, timeout=30)
    finally:
        os.unlink(path)
    out = r.stdout.splitlines()
    bad, checked = [], 0
    err = [l for l in r.stderr.splitlines() if l.strip() and 'Cannot interpret virtual addresses without program headers' not in l]
    if err:
        bad.append('readelf complains: %s' % ' / '.join(err)[:300])
    # split the output into per-section blocks
    blocks = {}
    cur = None
    for line in out:
        m = re.match(r"^Version (definition|needs|symbols) section '([^']*)' contains (\d+) entr", line)
        if m:
            cur = {'def': [], 'n': int(m.group(3))}
            blocks[{'definition': 'def', 'needs': 'need', 'symbols': 'versym'}[m.group(1)]] = cur
            continue
        if cur is not None:
            cur['def'].append(line)
    for kind in ('def', 'need'):
        if kind not in info:
            continue
        exp = info[kind]
        if not exp:
            continue    # readelf prints nothing for sh_info == 0
        b = blocks.get(kind)
        if b is None:
            bad.append('%s: section not printed' % kind)
            continue
        if b['n'] != len(exp):
            bad.append('%s: %d entries, readelf says %d' % (kind, len(exp), b['n']))
        recs = []
        for line in b['def']:
            m = re.match(r'^\s+(0x[0-9a-f]+|0+):\s*(.*)$', line)
            if m:
                recs.append((int(m.group(1), 16), m.group(2)))
        want = []
        for e in exp:
            if kind == 'def':
                want.append((e['off'], 'Index: %d ' % e['fields']['vd_ndx'], 'Cnt: %d ' % len(e['aux']), e['aux'][0]['name'], 'Name: '))
                for j, a in enumerate(e['aux'][1:], 1):
                    want.append((a['off'], 'Parent %d' % j, '', a['name'], 'Parent %d: ' % j))
            else:
                want.append((e['off'], 'File: ', 'Cnt: %d' % len(e['aux']), e['name'], 'File: '))
                for a in e['aux']:
                    want.append((a['off'], 'Version: %d' % a['fields']['vna_other'], '', a['name'], 'Name: '))
        if len(recs) != len(want):
            bad.append('%s: %d records expected, readelf printed %d' % (kind, len(want), len(recs)))
            continue
        for (off, text), (woff, s1, s2, name, nlabel) in zip(recs, want):
            checked += 1
            if off != woff:
                bad.append('%s: record at %#x, readelf walks to %#x (%s)' % (kind, woff, off, text))
            if s1 not in text + ' ' or s2 not in text + ' ':
                bad.append('%s: %r / %r not in %r' % (kind, s1, s2, text))
            # readelf resolves version names through the section NAMED .dynstr (its 'dynamic strings'), not sh_link
            if _ASCII.match(name) and name and case[kind]['strtab'] == 0:
                if kind == 'def' and nlabel == 'Name: ':
                    ok = text.endswith('Name: ' + name)
                elif kind == 'def':
                    ok = text.endswith(nlabel + name)
                elif nlabel == 'File: ':
                    ok = ('File: ' + name + ' ') in text + ' '
                else:
                    ok = ('Name: ' + name + ' ') in text + ' '
                if not ok:
                    bad.append('%s: name %r not in %r' % (kind, name, text))
    return bad, checked


def bulk(ctx, tier, shard, nshards):
    if not os.path.exists(READELF):
        ctx.count('referee.skipped-no-readelf')
        return
    cases = sweep(tier)
    step = 8 if tier == 'quick' else 1
    for k, case in enumerate(cases):
        if k % nshards != shard or (k // nshards) % step or case.get('far') or case.get('dynsym', {}).get('sympad'):
            continue        # (readelf indexes symbol tables as arrays of the standard structure: it cannot referee padded entries)
        bad, checked = referee_case(case)
        if bad:
            from vf.core import HarnessError
            raise HarnessError('C15 encoder disagrees with readelf -V on sweep case %d: %s' % (k, '; '.join(bad[:4])))
        ctx.count('referee.files')
        ctx.count('referee.records', checked)


def floors(ctx):
    c = ctx.counters
    out = []
    need = ['cell.32le', 'cell.32be', 'cell.64le', 'cell.64be', 'sec.def', 'sec.need', 'sec.versym', 'sec.def.zero-entries',
            'sec.need.zero-entries', 'sec.versym.zero-entries', 'noncontiguous.def', 'noncontiguous.need', 'multi-aux.def',
            'multi-aux.need', 'query.def.hit', 'query.def.miss', 'query.need.hit', 'query.need.miss',
            'query.def.hit-duplicate', 'query.need.hit-duplicate', 'hidden-index.def', 'hidden-index.need',
            'has_indexes.True', 'has_indexes.False', 'versym.ndx.named', 'versym.ndx.hidden', 'versym.ndx.plain', 'far.displacements',
            'interleaved.def', 'interleaved.need', 'shared-aux-chain.def', 'shared-aux-chain.need']
    need += ['layout.%s.%s' % (k, m) for k in ('def', 'need') for m in MODES]
    for k in need:
        if c[k] == 0:
            out.append('no case with ' + k)
    return out


if __name__ == '__main__':
    import sys
    from vf import core
    core.use_repo()
    nbad = nchk = 0
    cs = sweep('quick')
    for k, cse in enumerate(cs):
        b, n = referee_case(cse)
        nchk += n
        if b:
            nbad += 1
            print(k, b[:3])
    print('referee: %d files, %d records checked, %d files with complaints' % (len(cs), nchk, nbad))

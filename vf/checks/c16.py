"""C16 - primitive decoders invert the standard encodings and consume exact lengths."""
import io
import struct
import itertools

from hypothesis import strategies as st

from vf.enc import leb

ID = 'C16'
RULE = ('exhaustive: every byte string of length<=2 (quick) / <=3 (thorough) as LEB128 prefix followed by each '
        'of 3 sentinel suffixes, for ULEB and SLEB; all 2^24 (thorough) / boundary+stride sample (quick) 24-bit '
        'values x both byte orders; fixed-width ints at boundaries x every truncation point; C strings of every '
        'length 0..300 x {terminated+junk, terminated at EOF, unterminated} x 3 start positions through both '
        'readers; initial-length boundary classes; block forms; random (Hypothesis) LEB128 up to 20 bytes incl. '
        'non-minimal, random ints/strings/blocks. Non-trivial: encoding length >= 2 bytes, or a truncated / '
        'reserved-escape case. Enumerated cases are distinct by construction; random ones are deduplicated by '
        'SHA-1 of (kind, bytes).')
N = {'quick': 6000, 'thorough': 400000}
ASSUMPTIONS = ['reference decoders (vf/enc/leb.py, struct.unpack) implement DWARF v5 7.6 / 7.4 correctly',
               'truncation is reported as ELFParseError through struct_parse; the chunked string reader returns None as documented']

_lib = None


def lib():
    global _lib
    if _lib is None:
        from elftools.common import construct_utils as cu
        from elftools.common.utils import struct_parse, parse_cstring_from_stream
        from elftools.common.exceptions import ELFParseError
        from elftools import construct as C
        from elftools.dwarf.structs import DWARFStructs

        class L:
            pass
        L.struct_parse = staticmethod(struct_parse)
        L.cstr = staticmethod(parse_cstring_from_stream)
        L.ELFParseError = ELFParseError
        L.uleb = cu.ULEB128('')
        L.sleb = cu.SLEB128('')
        L.C = C
        L.cu = cu
        L.DWARFStructs = DWARFStructs
        L.ints = {}
        for bits in (8, 16, 32, 64):
            for signed in (False, True):
                for le in (False, True):
                    nm = '%s%sInt%d' % ('S' if signed else 'U', 'L' if le else 'B', bits)
                    L.ints[(bits, signed, le)] = getattr(C, nm)('')
        L.ints[(24, False, True)] = cu.ULInt24('')
        L.ints[(24, False, False)] = cu.UBInt24('')
        L.cstring = C.CString('')
        L.cstring_utf8 = C.CString('', encoding='utf-8')
        L.cstring_then_u16 = C.Struct('', C.CString('s', encoding='utf-8'), C.ULInt16('n'))
        _lib = L
    return _lib


def lib_parse(con, data, pos=0):
    """-> ('ok', value, tell) | ('perr',) | ('exc', exception)"""
    L = lib()
    s = io.BytesIO(data)
    try:
        v = L.struct_parse(con, s, pos)
        return ('ok', v, s.tell())
    except L.ELFParseError:
        return ('perr',)
    except Exception as e:  # noqa
        return ('exc', e)


def _cmp(ctx, what, got, exp, case):
    """exp: ('ok', value, tell) or ('perr',)."""
    if got[0] == 'exc':
        ctx.fail_exc(what, got[1], case)
        return False
    if got[0] != exp[0]:
        ctx.fail('%s|outcome|got=%s|exp=%s' % (what, got[0], exp[0]), 'expected %r got %r' % (exp, got), case)
        return False
    if got[0] == 'ok':
        if got[1] != exp[1]:
            ctx.fail('%s|value' % what, 'expected %r got %r' % (exp, got), case)
            return False
        if got[2] != exp[2]:
            ctx.fail('%s|consumed' % what, 'expected %r got %r' % (exp, got), case)
            return False
    return True


def ref_int(data, bits, signed, le, pos=0):
    n = bits // 8
    chunk = data[pos:pos + n]
    if len(chunk) < n:
        return ('perr',)
    v = int.from_bytes(chunk, 'little' if le else 'big', signed=signed)
    return ('ok', v, pos + n)


def run_case(ctx, case):
    L = lib()
    k = case['k']
    data = case.get('data', b'')
    if isinstance(data, list):          # ['pattern', n, tail]: n patterned bytes + tail, kept symbolic so that the case stays small
        data = bytes((i * 131 + 7) & 0xff for i in range(data[1])) + bytes(data[2])
    if k == 'leb':
        signed = case['signed']
        pos = case.get('pos', 0)
        r = leb.ref_decode(data, signed, pos)
        exp = ('perr',) if r is None else ('ok', r[0], pos + r[1])
        got = lib_parse(L.sleb if signed else L.uleb, data, pos)
        _cmp(ctx, 'sleb128' if signed else 'uleb128', got, exp, case)
        # strings of <= 5 bytes at pos 0 belong to the exhaustively enumerated domain (counted there)
        ctx.case(('leb', signed, pos, data), (r is None or r[1] >= 2) and (pos != 0 or len(data) > 5), case)
        ctx.count('leb.%s.%s' % ('s' if signed else 'u', 'trunc' if r is None else 'len%d' % min(r[1], 11)))
    elif k == 'int':
        bits, signed, le, pos = case['bits'], case['signed'], case['le'], case.get('pos', 0)
        exp = ref_int(data, bits, signed, le, pos)
        got = lib_parse(L.ints[(bits, signed, le)], data, pos)
        _cmp(ctx, 'int%d%s%s' % (bits, 's' if signed else 'u', 'le' if le else 'be'), got, exp, case)
        ctx.case(('int', bits, signed, le, pos, data), (bits >= 16 or exp[0] == 'perr') and not (bits == 24 and pos == 0 and len(data) == 4), case)
        ctx.count('int.%d.%s' % (bits, exp[0]))
    elif k == 'cstr':
        pos = case.get('pos', 0)
        idx = data.find(b'\0', pos)
        # chunked reader: None when no terminator before EOF
        s = io.BytesIO(data)
        try:
            got = L.cstr(s, pos)
        except Exception as e:  # noqa
            ctx.fail_exc('cstring_chunked', e, case)
            got = '<exc>'
        exp = None if idx < 0 else data[pos:idx]
        if not isinstance(got, str) and got != exp:
            ctx.fail('cstring_chunked|value', 'expected %r got %r' % (exp, got), case)
        # construct CString via struct_parse: value + exact consumption, ELFParseError on no terminator
        exp2 = ('perr',) if idx < 0 else ('ok', data[pos:idx], idx + 1)
        got2 = lib_parse(L.cstring, data, pos)
        _cmp(ctx, 'cstring_construct', got2, exp2, case)
        # the same with the optional text encoding (the public parameter of CString): a string that is valid UTF-8 comes back decoded, and
        # the bytes consumed are those of the encoding, not the characters of the result
        if idx >= 0:
            try:
                txt = data[pos:idx].decode('utf-8')
            except UnicodeDecodeError:
                txt = None
            if txt is not None:
                _cmp(ctx, 'cstring_construct_utf8', lib_parse(L.cstring_utf8, data, pos), ('ok', txt, idx + 1), case)
                # followed by another field in one structure: the field starts behind the terminator
                if len(data) >= idx + 3:
                    got3 = lib_parse(L.cstring_then_u16, data, pos)
                    exp3 = ('ok', (txt, int.from_bytes(data[idx + 1:idx + 3], 'little')), idx + 3)
                    if got3[0] == 'ok':
                        got3 = ('ok', (got3[1].s, got3[1].n), got3[2])
                    _cmp(ctx, 'cstring_construct_utf8_then_field', got3, exp3, case)
                if len(txt) != idx - pos:
                    ctx.count('cstr.utf8-multibyte')
        ln = (idx - pos) if idx >= 0 else len(data) - pos
        ctx.case(('cstr', pos, data), ln >= 2 or idx < 0, {'k': 'cstr', 'pos': pos, 'len': ln, 'terminated': idx >= 0})
        ctx.count('cstr.%s' % ('unterminated' if idx < 0 else ('chunk+' if ln >= 63 else 'short')))
    elif k == 'ilen':
        le = case['le']
        structs = L.DWARFStructs(little_endian=le, dwarf_format=case.get('fmt', 32), address_size=4)
        con = structs.Dwarf_initial_length('')
        bo = 'little' if le else 'big'
        if len(data) < 4:
            exp = ('perr',)
        else:
            first = int.from_bytes(data[:4], bo)
            if first < 0xfffffff0:
                exp = ('ok', first, 4)
            elif first == 0xffffffff:
                exp = ('perr',) if len(data) < 12 else ('ok', int.from_bytes(data[4:12], bo), 12)
            else:
                exp = ('perr',)   # reserved 0xfffffff0..0xfffffffe (DWARF v5 7.2.2)
            # 0xffffff00..0xffffffef: pre-v3 texts reserve them too; the library rejects, v5 allows.
            if 0xffffff00 <= first < 0xfffffff0:
                exp = None
        got = lib_parse(con, data)
        if exp is None:
            # either behaviour is standard-conformant for some DWARF version; must not crash otherwise
            if got[0] == 'exc':
                ctx.fail_exc('initial_length', got[1], case)
            elif got[0] == 'ok' and (got[1] != first or got[2] != 4):
                ctx.fail('initial_length|value', 'got %r for first=%#x' % (got, first), case)
        else:
            _cmp(ctx, 'initial_length', got, exp, case)
        ctx.case(('ilen', le, data), True, case)
        ctx.count('ilen.%s' % ('either' if exp is None else exp[0]))
    elif k == 'block':
        le, form = case['le'], case['form']
        structs = L.DWARFStructs(little_endian=le, dwarf_format=32, address_size=4)
        con = structs.Dwarf_dw_form[form]
        bo = 'little' if le else 'big'
        # reference
        if form in ('DW_FORM_block', 'DW_FORM_exprloc'):
            r = leb.ref_decode(data, False)
            hdr = None if r is None else r
        else:
            w = {'DW_FORM_block1': 1, 'DW_FORM_block2': 2, 'DW_FORM_block4': 4}[form]
            hdr = None if len(data) < w else (int.from_bytes(data[:w], bo), w)
        if hdr is None or len(data) < hdr[1] + hdr[0]:
            exp = ('perr',)
        else:
            exp = ('ok', list(data[hdr[1]:hdr[1] + hdr[0]]), hdr[1] + hdr[0])
        got = lib_parse(con, data)
        if got[0] == 'ok':
            got = ('ok', list(got[1]), got[2])
        _cmp(ctx, 'block|%s' % form, got, exp, case)
        ctx.case(('block', form, le, data), True, {'k': 'block', 'form': form, 'le': le, 'len': len(data), 'outcome': exp[0]})
        ctx.count('block.%s.%s' % (form, exp[0]))
    elif k == 'blob':
        # read_blob(stream, length): the operand bytes of implicit_value / const_type / entry_value, length read by the caller
        from elftools.common.utils import read_blob
        ln, pos = case['length'], case.get('pos', 0)
        st = io.BytesIO(data)
        st.seek(pos)
        try:
            r = read_blob(st, ln)
            got = ('ok', list(r), st.tell())
        except L.ELFParseError:
            got = ('perr',)
        except Exception as e:  # noqa
            got = ('exc', e)
        exp = ('ok', list(data[pos:pos + ln]), pos + ln) if pos + ln <= len(data) else ('perr',)
        _cmp(ctx, 'read_blob', got, exp, case)
        ctx.case(('blob', ln, pos, data), True, {'k': 'blob', 'length': ln, 'have': len(data) - pos, 'outcome': exp[0]})
        ctx.count('blob.%s' % exp[0])
    elif k == 'rue':
        # RepeatUntilExcluding over single bytes with terminator value t
        t = case['t']
        con = L.cu.RepeatUntilExcluding(lambda obj, c: obj == t, L.C.ULInt8('x'))
        idx = data.find(bytes([t]))
        exp = ('perr',) if idx < 0 else ('ok', list(data[:idx]), idx + 1)
        got = lib_parse(con, data)
        if got[0] == 'ok':
            got = ('ok', list(got[1]), got[2])
        _cmp(ctx, 'repeat_until_excluding', got, exp, case)
        ctx.case(('rue', t, data), True, case)
        ctx.count('rue.%s' % exp[0])
    else:
        raise ValueError(k)


# ---------------------------------------------------------------------------
SENTINELS = (b'', b'\x7f\xaa', b'\x80\x01')


def bulk(ctx, tier, shard, nshards):
    """Exhaustive parts, enumerated without building case dicts in the hot loop."""
    L = lib()
    maxlen = 2 if tier == 'quick' else 3
    n_nt = 0
    n_ev = 0
    BytesIO = io.BytesIO
    sp = L.struct_parse
    PErr = L.ELFParseError
    for signed, con, nm in ((False, L.uleb, 'uleb128'), (True, L.sleb, 'sleb128')):
        for ln in range(1, maxlen + 1):
            for idx, tup in enumerate(itertools.product(range(256), repeat=ln)):
                if idx % nshards != shard:
                    continue
                pre = bytes(tup)
                for sent in SENTINELS:
                    data = pre + sent
                    r = leb.ref_decode(data, signed)
                    s = BytesIO(data)
                    try:
                        v = sp(con, s)
                        got = (v, s.tell())
                    except PErr:
                        got = None
                    except Exception as e:  # noqa
                        ctx.fail_exc(nm, e, {'k': 'leb', 'signed': signed, 'data': data})
                        continue
                    n_ev += 1
                    if r is None or r[1] >= 2:
                        n_nt += 1
                    if got != r:
                        run_case(ctx, {'k': 'leb', 'signed': signed, 'data': data})
                        ctx.evaluations -= 1
    ctx.count('exhaustive.leb_prefix_cases', n_ev)
    # 24-bit
    if tier == 'thorough':
        vals = range(shard, 1 << 24, nshards)
    else:
        base = set()
        for b in (0, 1, 0x7f, 0x80, 0xff, 0x100, 0xffff, 0x10000, 0x7fffff, 0x800000, 0xffffff, 0x123456, 0xfedcba):
            base.add(b)
        base.update(range(0, 1 << 24, 257))
        vals = [v for i, v in enumerate(sorted(base)) if i % nshards == shard]
    n24 = 0
    for v in vals:
        for le in (True, False):
            data = v.to_bytes(3, 'little' if le else 'big') + b'\xa5'
            s = BytesIO(data)
            try:
                got = sp(L.ints[(24, False, le)], s)
                ok = (got == v and s.tell() == 3)
            except Exception:  # noqa
                ok = False
            n24 += 1
            if not ok:
                run_case(ctx, {'k': 'int', 'bits': 24, 'signed': False, 'le': le, 'data': data})
                ctx.evaluations -= 1
    ctx.count('exhaustive.int24_cases', n24)
    ctx.evaluations += n_ev + n24
    ctx.counters['bulk_nontrivial'] += n_nt + n24


def sweep(tier):
    cases = []
    # fixed-width ints: boundaries x truncation points
    for bits in (8, 16, 24, 32, 64):
        n = bits // 8
        for signed in ((False,) if bits == 24 else (False, True)):
            for le in (True, False):
                vals = {0, 1, (1 << (bits - 1)) - 1, 1 << (bits - 1), (1 << bits) - 1, 0x0102030405060708 & ((1 << bits) - 1)}
                for v in sorted(vals):
                    data = v.to_bytes(n, 'little' if le else 'big')
                    cases.append({'k': 'int', 'bits': bits, 'signed': signed, 'le': le, 'data': data + b'\xee\xdd'})
                    cases.append({'k': 'int', 'bits': bits, 'signed': signed, 'le': le, 'data': b'\x55' + data, 'pos': 1})
                    for cut in range(n):
                        cases.append({'k': 'int', 'bits': bits, 'signed': signed, 'le': le, 'data': data[:cut]})
    # C strings of every length around the 64-byte chunk
    for ln in range(0, 301):
        body = bytes((1 + (i * 7 + ln) % 255) for i in range(ln))
        for pos in (0, 1, 63):
            pre = b'\x00' * pos if pos != 1 else b'\x41'
            cases.append({'k': 'cstr', 'pos': pos, 'data': pre + body + b'\x00junk\x00'})
            cases.append({'k': 'cstr', 'pos': pos, 'data': pre + body + b'\x00'})
            cases.append({'k': 'cstr', 'pos': pos, 'data': pre + body})
    # multi-byte UTF-8 text (1..4 bytes per character) of every length, also across the chunk boundaries
    alphabet = 'aé中\U0001f600zÜλ'
    for ln in list(range(0, 40)) + [60, 61, 62, 63, 64, 65, 66, 126, 127, 128, 129, 130, 200]:
        txt = ''.join(alphabet[(i * 3 + ln) % len(alphabet)] for i in range(ln))
        for pos in (0, 1, 63):
            pre = b'\x00' * pos if pos != 1 else b'\x41'
            cases.append({'k': 'cstr', 'pos': pos, 'data': pre + txt.encode('utf-8') + b'\x00\x2a\x34\x12'})
            cases.append({'k': 'cstr', 'pos': pos, 'data': pre + txt.encode('utf-8') + b'\x00'})
    # ... and around every power of two up to 128 KiB (whatever the size of the reader's buffer is, a string may cross it several times)
    for k in range(9, 18):
        for ln in ((1 << k) - 1, 1 << k, (1 << k) + 1):
            body = bytes((1 + (i * 11 + ln) % 255) for i in range(ln))
            for pos in (0, 5):
                cases.append({'k': 'cstr', 'pos': pos, 'data': b'\x00' * pos + body + b'\x00tail\x00'})
            cases.append({'k': 'cstr', 'pos': 0, 'data': body})
    # initial length classes
    for le in (True, False):
        bo = 'little' if le else 'big'
        for first in (0, 1, 0x7fffffff, 0x80000000, 0xfffffeff, 0xffffff00, 0xffffffef, 0xfffffff0, 0xfffffff1,
                      0xfffffffe, 0xffffffff):
            w = first.to_bytes(4, bo)
            # the 64-bit value may be any number - also one that, as a *first* word, would be a reserved escape or the 64-bit escape itself
            for second in (0, 1, 0xfffffeff, 0xffffff00, 0xffffff80, 0xffffffef, 0xfffffff0, 0xfffffffe, 0xffffffff, 0x100000000,
                           0xffffffff00000000, 0xfffffff000000000, 0xffffffffffffffff):
                data = w + second.to_bytes(8, bo) + b'\x99'
                cases.append({'k': 'ilen', 'le': le, 'data': data})
                if first == 0xffffffff:
                    for cut in range(4, 12):
                        cases.append({'k': 'ilen', 'le': le, 'data': data[:cut]})
            for cut in range(4):
                cases.append({'k': 'ilen', 'le': le, 'data': w[:cut]})
    # LEB128 boundary values with padding, and truncation points
    for signed in (False, True):
        vals = set()
        for k in range(0, 71, 7):
            for d in (-1, 0, 1):
                vals.add((1 << k) + d)
                vals.add(-(1 << k) + d)
        for k in (31, 32, 63, 64):
            vals.update({(1 << k) - 1, 1 << k, -(1 << k), -(1 << k) - 1})
        for v in sorted(vals):
            if v < 0 and not signed:
                continue
            for pad in (0, 1, 2, 9) + ((21, 22, 23, 31, 32, 33, 55, 63, 64, 65, 127, 128, 255, 256, 1000) if v in (0, 1, -1, 127, 128, -64, -65, (1 << 63) - 1, 1 << 64) else ()):
                # an encoding may carry any number of redundant groups: its length is unbounded although the value is small
                enc = leb.sleb(v, pad) if signed else leb.uleb(v, pad)
                cases.append({'k': 'leb', 'signed': signed, 'data': enc + b'\xff\x00'})
                if pad > 9:
                    continue
                cases.append({'k': 'leb', 'signed': signed, 'data': b'\x80' + enc, 'pos': 1})
                for cut in range(len(enc)):
                    cases.append({'k': 'leb', 'signed': signed, 'data': enc[:cut]})
    # blocks
    for le in (True, False):
        bo = 'little' if le else 'big'
        for form, w in (('DW_FORM_block1', 1), ('DW_FORM_block2', 2), ('DW_FORM_block4', 4), ('DW_FORM_block', 0), ('DW_FORM_exprloc', 0)):
            for ln in (0, 1, 2, 127, 128, 255, 256, 300):
                if w and ln >= (1 << (8 * w)):
                    continue
                body = bytes((i * 13 + 5) & 0xff for i in range(ln))
                for pad in ((0, 1) if not w else (0,)):
                    hdr = ln.to_bytes(w, bo) if w else leb.uleb(ln, pad)
                    full = hdr + body
                    cases.append({'k': 'block', 'le': le, 'form': form, 'data': full + b'\x01\x02'})
                    for cut in sorted({0, 1, len(hdr) - 1, len(hdr), len(full) - 1} - {len(full)}):
                        if 0 <= cut < len(full):
                            cases.append({'k': 'block', 'le': le, 'form': form, 'data': full[:cut]})
            # declared lengths at the sign and width boundaries of the length field, far beyond the bytes that follow
            for ln in (0x7f, 0x80, 0xff, 0x7fff, 0x8000, 0xffff, 0x7fffffff, 0x80000000, 0x80000010, 0xffffffff, 1 << 32, 1 << 63, (1 << 64) - 1):
                if w and ln >= (1 << (8 * w)):
                    continue
                hdr = ln.to_bytes(w, bo) if w else leb.uleb(ln)
                for tail in (b'', b'\x01\x02\x03'):
                    cases.append({'k': 'block', 'le': le, 'form': form, 'data': hdr + tail})
    # read_blob: complete, with trailing bytes, and every kind of shortfall
    for ln in (0, 1, 2, 8, 127, 128, 300, 5000):
        body = bytes((i * 29 + 3) & 0xff for i in range(ln))
        for pos in (0, 3):
            cases.append({'k': 'blob', 'length': ln, 'pos': pos, 'data': b'\xaa' * pos + body})
            cases.append({'k': 'blob', 'length': ln, 'pos': pos, 'data': b'\xaa' * pos + body + b'\x01\x02'})
            for short in (1, 2, ln // 2, ln):
                if 0 < short <= ln:
                    cases.append({'k': 'blob', 'length': ln, 'pos': pos, 'data': b'\xaa' * pos + body[:ln - short]})
    # ... and blobs of 64 KiB, 1 MiB and 4 MiB (+ a few bytes) followed by other bytes: whatever piece size a reader uses internally
    for ln in ((1 << 16) + 1, (1 << 20) + 3, (1 << 22) + 5):
        cases.append({'k': 'blob', 'length': ln, 'pos': 0, 'data': ['pattern', ln, b'\x9f\x9f\x9f']})
    for t in (0, 0xff):
        for ln in (0, 1, 5, 64, 200):
            body = bytes(1 + (i % 200) for i in range(ln))
            cases.append({'k': 'rue', 't': t, 'data': body + bytes([t]) + b'zz'})
            cases.append({'k': 'rue', 't': t, 'data': body})
    return cases


def strategy(tier):
    big = st.one_of(st.integers(0, (1 << 70)), st.integers(0, 1 << 20),
                    st.sampled_from([(1 << k) + d for k in range(0, 71) for d in (-1, 0, 1) if (1 << k) + d >= 0]))
    pad = st.sampled_from([0, 0, 0, 1, 2, 3, 5, 9, 9, 25, 40, 70, 300])
    suffix = st.binary(max_size=4)

    @st.composite
    def leb_case(draw):
        signed = draw(st.booleans())
        v = draw(big)
        if signed and draw(st.booleans()):
            v = -v
        enc = leb.sleb(v, draw(pad)) if signed else leb.uleb(v, draw(pad))
        mode = draw(st.sampled_from(['full', 'full', 'full', 'cut', 'prefix']))
        if mode == 'cut':
            enc = enc[:draw(st.integers(0, len(enc) - 1))]
            return {'k': 'leb', 'signed': signed, 'data': enc}
        if mode == 'prefix':
            pre = draw(st.binary(max_size=3))
            return {'k': 'leb', 'signed': signed, 'data': pre + enc + draw(suffix), 'pos': len(pre)}
        return {'k': 'leb', 'signed': signed, 'data': enc + draw(suffix)}

    raw_leb = st.builds(lambda s, d: {'k': 'leb', 'signed': s, 'data': d}, st.booleans(), st.binary(min_size=0, max_size=20))

    @st.composite
    def int_case(draw):
        bits = draw(st.sampled_from([8, 16, 24, 32, 64]))
        signed = False if bits == 24 else draw(st.booleans())
        le = draw(st.booleans())
        data = draw(st.binary(min_size=0, max_size=bits // 8 + 3))
        pos = draw(st.integers(0, 2))
        return {'k': 'int', 'bits': bits, 'signed': signed, 'le': le, 'data': data, 'pos': pos}

    @st.composite
    def cstr_case(draw):
        ln = draw(st.one_of(st.integers(0, 300), st.sampled_from([62, 63, 64, 65, 126, 127, 128, 129, 191, 192])))
        body = draw(st.binary(min_size=ln, max_size=ln)).replace(b'\0', b'\x01')
        if draw(st.integers(0, 3)) == 0:
            body = draw(st.text(alphabet=st.characters(min_codepoint=1, exclude_categories=('Cs',)), min_size=0, max_size=max(1, ln // 2))).encode('utf-8')
        pos = draw(st.sampled_from([0, 0, 1, 5, 63, 64]))
        term = draw(st.sampled_from(['junk', 'eof', 'none']))
        tail = {'junk': b'\0' + draw(st.binary(max_size=70)), 'eof': b'\0', 'none': b''}[term]
        return {'k': 'cstr', 'pos': pos, 'data': b'\x07' * pos + body + tail}

    @st.composite
    def ilen_case(draw):
        le = draw(st.booleans())
        bo = 'little' if le else 'big'
        first = draw(st.one_of(st.integers(0, 0xffffffff), st.integers(0xfffffef0, 0xffffffff)))
        data = first.to_bytes(4, bo) + draw(st.binary(max_size=9))
        if first == 0xffffffff and draw(st.booleans()):
            # a 64-bit length whose value looks like a 32-bit escape
            data = first.to_bytes(4, bo) + draw(st.integers(0xfffffe00, 0x1000000ff)).to_bytes(8, bo) + draw(st.binary(max_size=2))
        return {'k': 'ilen', 'le': le, 'data': data}

    @st.composite
    def block_case(draw):
        le = draw(st.booleans())
        form = draw(st.sampled_from(['DW_FORM_block1', 'DW_FORM_block2', 'DW_FORM_block4', 'DW_FORM_block', 'DW_FORM_exprloc']))
        w = {'DW_FORM_block1': 1, 'DW_FORM_block2': 2, 'DW_FORM_block4': 4}.get(form, 0)
        body = draw(st.binary(max_size=300))
        ln = len(body)
        if w == 1 and ln > 255:
            body = body[:255]
            ln = 255
        hdr = ln.to_bytes(w, 'little' if le else 'big') if w else leb.uleb(ln, draw(st.integers(0, 2)))
        full = hdr + body
        if draw(st.integers(0, 3)) == 0 and full:
            return {'k': 'block', 'le': le, 'form': form, 'data': full[:draw(st.integers(0, len(full) - 1))]}
        return {'k': 'block', 'le': le, 'form': form, 'data': full + draw(suffix)}

    rue_case = st.builds(lambda t, d: {'k': 'rue', 't': t, 'data': d}, st.sampled_from([0, 0xff, 7]), st.binary(max_size=80))
    return st.one_of(leb_case(), leb_case(), raw_leb, int_case(), cstr_case(), ilen_case(), block_case(), rue_case)


def evidence_extra(ctx):
    return {'exhaustive': True,
            'exhaustive_note': 'LEB128 prefixes up to the tier length and (thorough) all 2^24 24-bit values are enumerated completely; '
                               'bulk_nontrivial in the histogram counts the non-trivial enumerated cases (distinct by construction); '
                               'distinct_nontrivial = bulk_nontrivial + hashed sweep/random cases that lie outside the enumerated domain'}


def floors(ctx):
    out = []
    need = 2 * (256 + 65536) * 3
    if ctx.counters['exhaustive.leb_prefix_cases'] < need:
        out.append('LEB prefix enumeration incomplete: %d < %d' % (ctx.counters['exhaustive.leb_prefix_cases'], need))
    for k in ('leb.u.trunc', 'leb.s.trunc', 'cstr.unterminated', 'ilen.perr', 'int.24.ok'):
        if ctx.counters[k] == 0:
            out.append('no case of class %s' % k)
    return out

"""C19 - opening arbitrary bytes fails only with ELFError; header enumeration terminates within bounds.

(a) construction:  ELFFile(BytesIO(data)) returns or raises ELFError (any subclass); any other exception
    type is a violation (bucket = open|<exception type>|<innermost elftools frame>).
(b) termination:   a fixed enumeration battery (header, num_sections, iter_sections, num_segments,
    iter_segments, num_symbols of every symbol-table-like section, hash get_number_of_symbols, dynamic
    iter_tags, DynamicSegment.num_symbols, iter_notes, num_versions) is run under a deterministic WORK budget:
    the number of 'line' trace events executed in elftools frames (sys.settrace) and what is asked of the
    stream (counting BytesIO).  Each battery step must stay below
        LINE_B[step] * max(len(data), 64 KiB)   line events,
        BYTE_B       * max(len(data), 64 KiB)   bytes delivered by read() in total, and the same bound for the
                                                size asked for in one single read() call.
    The step is aborted by raising a private BaseException from the trace function when the line budget is
    exhausted (bucket = battery.line-budget|step=<step>).  Any exception type is fine in (b) ("by returning or by
    raising").  Wall-clock time is never consulted.

`python -m vf.checks.c19 measure` re-measures the work of the battery on the valid files (numbers quoted below).
"""
import io
import os
import sys
import struct

from vf import core, streams
from vf.enc import elf as W
from vf.choose import HypChooser

ID = 'C19'
RULE = ('Inputs: random bytes (with and without a valid e_ident prefix); EVERY truncation length of 20 generated seed '
        'files (header-only / sections / segments / full = dynamic+notes+hash+gnu-hash+versym+verneed+verdef+symtab '
        'with PT_LOAD/PT_DYNAMIC/PT_NOTE / forced extended numbering; each for ELF32/64 x LSB/MSB, written by the '
        'independent writer vf/enc/elf.py, refereed clean by readelf and llvm-readelf) and of the shipped ELF files '
        '<= 4 KiB (quick tier: every length of the 20 generated seeds; shipped files at the first 128 lengths + '
        'header-table boundaries +-1 + stride 31); truncation of larger shipped files at header-table entry boundaries '
        '+-1 (quick: files <= 64 KiB, 9 boundaries each); every single-byte substitution of the first 64 bytes with '
        '{0x00,0xff,+1,^0x80} (quick: generated seeds + shipped files <= 1 KiB); '
        'field-aware corruption (offsets of every Ehdr/Shdr/Phdr/Dyn/Nhdr/hash/gnu-hash/verneed/verdef field found by an '
        'independent struct.unpack scanner that is cross-checked against the writer model): every single field x '
        'boundary values {0,1,S-1,S,S+1,0xff00,0xffff,2^31,2^32-1,2^64-1,len-1,len,len+1,orig-1,orig+1} (S = size of '
        'the structure the field belongs to or describes; quick: full set in selected class/byte-order cells, a 6-value '
        'subset elsewhere), every PAIR of constructor-relevant fields (7 Ehdr fields, '
        'shdr[0] escape fields, name-table header fields) and every pair of fields inside one dynamic/note/hash '
        'record x boundary values, and Hypothesis-drawn 1-4 field corruptions optionally combined with a truncation '
        'or a byte splice; an atheris campaign on the constructor whose saved inputs are replayed through the same '
        'oracle. Oracle (a): ELFFile(BytesIO(data)) returns or raises ELFError. Oracle (b): each step of the '
        'enumeration battery finishes (returning or raising) within a line-event budget (sys.settrace, elftools frames '
        'only) and a read budget (counting BytesIO), both proportional to max(file length, 64 KiB). Non-trivial: the '
        'input passes _identify_file (magic, EI_CLASS, EI_DATA valid) and differs from its seed inside a region the '
        'battery reads (Ehdr, section/program header tables, dynamic/note/hash payloads), or, for seedless inputs, '
        'passes _identify_file and is long enough for the Ehdr to parse. Distinct by SHA-1 of the input bytes.')
N = {'quick': 3200, 'thorough': 160000}

# Work bounds, per battery step:  lines <= LINE_B[step] * max(len, 64 KiB),  bytes <= BYTE_B * max(len, 64 KiB).
# Calibration (`python -m vf.checks.c19 measure`, unchanged tree, CPython 3.12): 20 generated seeds + the 110
# non-empty shipped ELF files that open (2 more are rejected by the constructor).
#   step                 largest line-event count per max(len,64 KiB) byte                    largest count, file <= 64 KiB
#     iter_sections        0.790 (arm_exidx_test.o: 145 884 events, 508 sections, 184 628 B)     14 221 (exe_simple64.elf)
#     iter_segments        0.194 (debuglink.debug: 12 705 events, 13 segments, 6 032 B)          12 705
#     iter_tags            0.089 (android_dyntags.elf)                                             5 816
#     dynseg.num_symbols   0.073 (angr-eh_frame.elf)                                               3 957
#     iter_notes           0.037 (note_tc3xxx_blinky.elf: 120 355 events, 3 288 400 B)             1 973
#     every other step   < 0.004                                                                 <= 255
#   bytes delivered per step: at most 0.416 per byte (iter_notes, note_tc3xxx_blinky.elf); largest single read()
#   request: 0.005 per byte (1 088 bytes, core_linux32.elf).  dwarf_phantombytes.elf is left out of the two byte
#   figures: its .debug_* sections are typed SHT_NOTE, readelf reports "note with invalid namesz and/or descsz" for
#   them; iter_notes reads 4.9 bytes per byte there and asks for up to 8 257 552 bytes (45.7 per byte) in one read().
# The constants are >= 100 x the ratios of the valid files (A = 0), and above what dwarf_phantombytes.elf needs:
SIZE_FLOOR = 65536
LINE_A = 0
LINE_B = {'iter_sections': 80, 'iter_sections(type)': 80, 'get_section_by_name(absent)': 80}    # 80 * 64 KiB = 5 242 880 line events (368 x the small-file maximum of 14 221)
LINE_B_DEFAULT = 20               # 20 * 64 KiB = 1 310 720 line events (103 x the small-file maximum of 12 705)
BYTE_A, BYTE_B = 0, 256           # 256 * 64 KiB = 16 MiB, for bytes delivered per step and for a single read() request

ASSUMPTIONS = [
    'streams are io.BytesIO (a subclass that counts read() requests). BytesIO.read(n) never allocates more than the '
    'file holds, so the bound on the size of a single read() request stands in for the allocation a real file object '
    'makes (io.BufferedReader.read(n) allocates n bytes up front: tracemalloc peak 4 294 967 668 bytes for '
    'read(2**32-1) on a 300-byte file, MemoryError for read(2**62))',
    'work = line events in frames whose code object lives under .../elftools/ (sys.settrace), counted per battery step; '
    'C-level work without line events (max(), bytes.find, struct.unpack) operates on objects that were built under '
    'the line budget or on data delivered under the byte budget',
    'budgets (A=0): line events <= B*max(len,65536) with B=80 for iter_sections and B=20 for every other step; bytes '
    'delivered per step and size of one read() request <= 256*max(len,65536). Calibration on 20 generated + 110 '
    'shipped valid files: iter_sections at most 0.790 events per max(len,64K) byte (arm_exidx_test.o, 145 884 events) '
    'and 14 221 events on files <= 64 KiB; iter_segments 0.194 (12 705 events); iter_tags 0.089; '
    'DynamicSegment.num_symbols 0.073; iter_notes 0.037; other steps < 0.004; bytes delivered at most 0.416 per byte, '
    'single request at most 0.005 per byte. Every bound is >= 100 x the measured maximum; '
    'dwarf_phantombytes.elf (junk typed SHT_NOTE; readelf warns) is excluded from the byte calibration but stays '
    'below the bounds (4.9 / 45.7 per byte)',
    'the budget is per step and per input (not cumulative over the battery), so the bucket names the step that ran away',
    'the constructor itself is not traced (its struct set-up costs ~4 800 line events independent of the data and it '
    'contains no data-dependent loop); only its exception type is judged',
    'tracemalloc peak (named in the design) is not measured: with BytesIO streams every allocation proportional to a '
    'corrupted count is built by Python-level loops (construct Array / list appends) that the line budget bounds, and '
    'single large allocations can only come from read(n), which the request-size bound covers',
    'iter_versions is run under the same budgets but only counted (extra.iter_versions.<outcome>), never reported: the '
    'property statement lists headers, sections, segments, symbol counts, dynamic tags and notes, and the design '
    'battery has num_versions only',
    'atheris (optional, /verif/.deps) fuzzes the constructor only; inputs it saves decide nothing until replayed through '
    'run_case in the plain interpreter; absent atheris => counter atheris.skipped',
]

MAGIC = b'\x7fELF'
SMALL = 4096
STORE_MAX = 8192


# ---------------------------------------------------------------------------
# library access

_lib = {}


def lib():
    if not _lib:
        from elftools.elf.elffile import ELFFile
        from elftools.common.exceptions import ELFError
        _lib['ELFFile'] = ELFFile
        _lib['ELFError'] = ELFError
    return _lib['ELFFile'], _lib['ELFError']


# ---------------------------------------------------------------------------
# work meter

class _Budget(BaseException):
    """Raised from the trace function when the line budget of a battery step is exhausted."""


class _Meter:
    n = 0
    limit = 0


_m = _Meter()
_code_is_lib = {}


def _gtrace(frame, event, arg):
    code = frame.f_code
    r = _code_is_lib.get(code)
    if r is None:
        r = '/elftools/' in code.co_filename.replace('\\', '/')
        _code_is_lib[code] = r
    return _ltrace if r else None


def _ltrace(frame, event, arg):
    if event == 'line':
        _m.n += 1
        if _m.n > _m.limit:
            raise _Budget()
    return _ltrace


class CountingBytesIO(io.BytesIO):
    """BytesIO that counts what is asked of it through read():
    req = sum of requested sizes, got = sum of delivered sizes, peak = largest single request,
    over = {innermost elftools frame issuing a request larger than `watch`: largest such request}."""

    def __init__(self, data):
        io.BytesIO.__init__(self, data)
        self.nbytes = len(data)
        self.watch = byte_budget(len(data))
        self.reset()

    def reset(self):
        self.req = self.got = self.peak = 0
        self.over = {}

    def read(self, n=-1):
        r = io.BytesIO.read(self, n)
        if n is None or n < 0:
            n = len(r)
        self.req += n
        self.got += len(r)
        if n > self.peak:
            self.peak = n
        if n > self.watch:
            site = _caller_site()
            if n > self.over.get(site, 0):
                self.over[site] = n
        return r


def _caller_site():
    """innermost frame inside the elftools package on the current stack, as 'elf/notes.py:iter_notes'"""
    f = sys._getframe(2)
    while f is not None:
        fn = f.f_code.co_filename.replace('\\', '/')
        if '/elftools/' in fn:
            return '%s:%s' % (fn.split('/elftools/')[-1], f.f_code.co_name)
        f = f.f_back
    return '?'


def line_budget(n, step):
    return LINE_A + LINE_B.get(step, LINE_B_DEFAULT) * max(n, SIZE_FLOOR)


def byte_budget(n):
    return BYTE_A + BYTE_B * max(n, SIZE_FLOOR)


class Battery:
    """Runs the fixed enumeration battery on an opened ELFFile; collects per-step work."""

    STEPS = ('header', 'num_sections', 'iter_sections', 'iter_sections(type)', 'get_section_by_name(absent)', 'num_segments', 'iter_segments', 'iter_segments(type)', 'num_symbols',
             'hash.get_number_of_symbols', 'iter_tags', 'dynseg.num_symbols', 'iter_notes', 'num_versions')
    # Steps that are run under the same budgets but only COUNTED (counters extra.<step>.<outcome>), never reported:
    # the property statement does not list version entries among the enumerations, although its anchors name the
    # iter_versions loop (gnuversions.py:96) and its quantifier names version records.
    EXTRA_STEPS = ('extra.iter_versions',)

    def __init__(self, ef, stream, nbytes, limit=None):
        self.ef, self.stream, self.nbytes = ef, stream, nbytes
        self.fixed_limit = limit
        self.work = {}       # step -> (line events, bytes requested, outcome)
        self.blown = []      # steps that exhausted the line budget
        self.excs = {}       # step -> exception type names seen

    def _run(self, step, fn):
        """Run fn() under the meter; the step's counters accumulate over calls.
        work[step] = [line events, bytes delivered, largest single request, bytes requested, outcome,
                      {site: size} of the single requests that exceed the bound]"""
        w = self.work.setdefault(step, [0, 0, 0, 0, 'ok', {}])
        if w[4] == 'budget':
            return None
        _m.n = w[0]
        _m.limit = line_budget(self.nbytes, step) if self.fixed_limit is None else self.fixed_limit
        st = self.stream
        st.reset()
        old = sys.gettrace()
        res = None
        sys.settrace(_gtrace)
        try:
            res = fn()
        except _Budget:
            w[4] = 'budget'
            self.blown.append(step)
        except MemoryError:
            w[4] = 'memory'
        except Exception as e:  # noqa - any exception is a legitimate way to terminate
            self.excs.setdefault(step, set()).add(type(e).__name__)
            if w[4] == 'ok':
                w[4] = 'raised'
        finally:
            sys.settrace(old)
        w[0] = _m.n
        w[1] += st.got
        w[2] = max(w[2], st.peak)
        w[3] += st.req
        for site, n in st.over.items():
            w[5][site] = max(w[5].get(site, 0), n)
        return res

    @staticmethod
    def _drain(make_iter, sink):
        it = make_iter()
        try:
            for x in it:
                sink.append(x)
        finally:
            close = getattr(it, 'close', None)
            if close is not None:
                close()

    def run(self):
        ef = self.ef
        self._run('header', lambda: (ef.header['e_shoff'], ef.header['e_phoff'], ef.elfclass, ef.little_endian))
        self._run('num_sections', ef.num_sections)
        secs = []
        self._run('iter_sections', lambda: self._drain(ef.iter_sections, secs))
        # the same enumerations through their other entry points: the type filter and the look-up of a name that no section bears (a full walk)
        # (on every input that uses the extended-numbering escape and on a third of the others: each is one more walk under the tracer)
        try:
            extra = ef.header['e_shnum'] == 0 or ef.header['e_phnum'] == 0xffff or (self.nbytes + len(secs)) % 3 == 0
        except Exception:  # noqa
            extra = True
        if extra:
            self._run('iter_sections(type)', lambda: self._drain(lambda: ef.iter_sections(type='SHT_ARM_EXIDX'), []))
            self._run('get_section_by_name(absent)', lambda: ef.get_section_by_name('.no-such-section'))
        self._run('num_segments', ef.num_segments)
        segs = []
        self._run('iter_segments', lambda: self._drain(ef.iter_segments, segs))
        if extra:
            self._run('iter_segments(type)', lambda: self._drain(lambda: ef.iter_segments(type='PT_LOAD'), []))
        for s in secs:
            if hasattr(s, 'num_symbols'):
                self._run('num_symbols', s.num_symbols)
            if hasattr(s, 'get_number_of_symbols'):
                self._run('hash.get_number_of_symbols', s.get_number_of_symbols)
            if hasattr(s, 'num_versions'):
                self._run('num_versions', s.num_versions)
        for o in secs + segs:
            if hasattr(o, 'iter_tags'):
                self._run('iter_tags', lambda: self._drain(o.iter_tags, []))
            if hasattr(o, 'iter_notes'):
                self._run('iter_notes', lambda: self._drain(o.iter_notes, []))
        for o in segs:
            if hasattr(o, 'num_symbols'):
                self._run('dynseg.num_symbols', o.num_symbols)
        # observed but not judged (see EXTRA_STEPS)
        for s in secs:
            if hasattr(s, 'iter_versions'):
                self._run('extra.iter_versions', lambda: self._drain_versions(s))
        return len(secs), len(segs)

    @staticmethod
    def _drain_versions(sec):
        it = sec.iter_versions()
        try:
            for _version, aux_iter in it:
                for _aux in aux_iter:
                    pass
        finally:
            it.close()


# ---------------------------------------------------------------------------
# independent scanner: offsets of every header / record field (struct.unpack only)

EH_LAYOUT = {
    32: [('e_type', 16, 2), ('e_machine', 18, 2), ('e_version', 20, 4), ('e_entry', 24, 4), ('e_phoff', 28, 4),
         ('e_shoff', 32, 4), ('e_flags', 36, 4), ('e_ehsize', 40, 2), ('e_phentsize', 42, 2), ('e_phnum', 44, 2),
         ('e_shentsize', 46, 2), ('e_shnum', 48, 2), ('e_shstrndx', 50, 2)],
    64: [('e_type', 16, 2), ('e_machine', 18, 2), ('e_version', 20, 4), ('e_entry', 24, 8), ('e_phoff', 32, 8),
         ('e_shoff', 40, 8), ('e_flags', 48, 4), ('e_ehsize', 52, 2), ('e_phentsize', 54, 2), ('e_phnum', 56, 2),
         ('e_shentsize', 58, 2), ('e_shnum', 60, 2), ('e_shstrndx', 62, 2)],
}
SH_LAYOUT = {
    32: [(f, 4 * i, 4) for i, f in enumerate(W.SH_FIELDS)],
    64: [('sh_name', 0, 4), ('sh_type', 4, 4), ('sh_flags', 8, 8), ('sh_addr', 16, 8), ('sh_offset', 24, 8),
         ('sh_size', 32, 8), ('sh_link', 40, 4), ('sh_info', 44, 4), ('sh_addralign', 48, 8), ('sh_entsize', 56, 8)],
}
PH_LAYOUT = {
    32: [('p_type', 0, 4), ('p_offset', 4, 4), ('p_vaddr', 8, 4), ('p_paddr', 12, 4), ('p_filesz', 16, 4),
         ('p_memsz', 20, 4), ('p_flags', 24, 4), ('p_align', 28, 4)],
    64: [('p_type', 0, 4), ('p_flags', 4, 4), ('p_offset', 8, 8), ('p_vaddr', 16, 8), ('p_paddr', 24, 8),
         ('p_filesz', 32, 8), ('p_memsz', 40, 8), ('p_align', 48, 8)],
}
DYN_LAYOUT = {32: [('d_tag', 0, 4), ('d_val', 4, 4)], 64: [('d_tag', 0, 8), ('d_val', 8, 8)]}
NHDR_LAYOUT = [('n_namesz', 0, 4), ('n_descsz', 4, 4), ('n_type', 8, 4)]
VERNEED_LAYOUT = [('vn_version', 0, 2), ('vn_cnt', 2, 2), ('vn_file', 4, 4), ('vn_aux', 8, 4), ('vn_next', 12, 4)]
VERNAUX_LAYOUT = [('vna_hash', 0, 4), ('vna_flags', 4, 2), ('vna_other', 6, 2), ('vna_name', 8, 4), ('vna_next', 12, 4)]
VERDEF_LAYOUT = [('vd_version', 0, 2), ('vd_flags', 2, 2), ('vd_ndx', 4, 2), ('vd_cnt', 6, 2), ('vd_hash', 8, 4),
                 ('vd_aux', 12, 4), ('vd_next', 16, 4)]
VERDAUX_LAYOUT = [('vda_name', 0, 4), ('vda_next', 4, 4)]

SHT_DYNAMIC, SHT_NOTE, SHT_HASH, SHT_GNU_HASH = 6, 7, 5, 0x6ffffff6
SHT_VERNEED, SHT_VERDEF = 0x6ffffffe, 0x6ffffffd
PT_DYNAMIC, PT_NOTE = 2, 4

# Ehdr fields that steer enumeration (the rest is parsed but has no influence on any loop or offset)
EH_STEER = ('e_phoff', 'e_shoff', 'e_phentsize', 'e_phnum', 'e_shentsize', 'e_shnum', 'e_shstrndx')
MAX_REC = 48     # records per table for which fields are listed


def _u(data, off, size, le):
    return int.from_bytes(data[off:off + size], 'little' if le else 'big')


class Scan:
    """Field map of a (valid) ELF image.  fields: list of dicts {label, off, size, group, S}
    group: 'ctor' (read by the constructor), 'hdr' (other Ehdr/Shdr/Phdr), 'rec' (typed records the battery
    reads), 'ver' (version records: not read by the battery).  S = structure size relevant for the field."""

    def __init__(self, data):
        self.ok = False
        self.fields = []
        self.regions = []        # (start, end) byte ranges the battery reads
        self.boundaries = set()  # header-table entry boundaries
        if len(data) < 16 or data[:4] != MAGIC or data[4] not in (1, 2) or data[5] not in (1, 2):
            return
        cls = self.cls = 32 if data[4] == 1 else 64
        le = self.le = data[5] == 1
        ehsz = W.EHDR_SIZE[cls]
        if len(data) < ehsz:
            return
        self.ok = True
        eh = self.eh = {f: _u(data, o, s, le) for f, o, s in EH_LAYOUT[cls]}
        for f, o, s in EH_LAYOUT[cls]:
            S = {'e_shentsize': W.SHDR_SIZE[cls], 'e_phentsize': W.PHDR_SIZE[cls]}.get(f, ehsz)
            self.fields.append({'label': 'eh.' + f, 'off': o, 'size': s, 'group': 'ctor' if f in EH_STEER else 'hdr', 'S': S})
        self.regions.append((0, ehsz))
        n = len(data)
        # section header table
        self.sh = []
        shoff, shent = eh['e_shoff'], eh['e_shentsize']
        shnum = eh['e_shnum']
        if shoff and shent >= W.SHDR_SIZE[cls] and shoff + W.SHDR_SIZE[cls] <= n:
            if shnum == 0:
                shnum = _u(data, shoff + dict((f, o) for f, o, s in SH_LAYOUT[cls])['sh_size'], cls // 8, le)
            shnum = min(shnum, (n - shoff) // shent)
            for i in range(shnum):
                base = shoff + i * shent
                self.sh.append({f: _u(data, base + o, s, le) for f, o, s in SH_LAYOUT[cls]})
                self.boundaries.update((base, base + shent))
            self.regions.append((shoff, shoff + shnum * shent))
        shstrndx = eh['e_shstrndx']
        if shstrndx == 0xffff and self.sh:
            shstrndx = self.sh[0]['sh_link']
        self.shstrndx = shstrndx
        for i, h in enumerate(self.sh):
            base = shoff + i * shent
            for f, o, s in SH_LAYOUT[cls]:
                grp = 'hdr'
                if i == 0 and f in ('sh_size', 'sh_link', 'sh_info'):
                    grp = 'ctor'
                elif i == shstrndx and f in ('sh_type', 'sh_flags', 'sh_offset', 'sh_size'):
                    grp = 'ctor'
                if i < MAX_REC or grp == 'ctor':
                    self.fields.append({'label': 'sh[%d].%s' % (i, f), 'off': base + o, 'size': s, 'group': grp,
                                        'S': W.SHDR_SIZE[cls]})
        # program header table
        self.ph = []
        phoff, phent, phnum = eh['e_phoff'], eh['e_phentsize'], eh['e_phnum']
        if phoff and phent >= W.PHDR_SIZE[cls]:
            if phnum == 0xffff and self.sh:
                phnum = self.sh[0]['sh_info']
            phnum = min(phnum, max(n - phoff, 0) // phent)
            for j in range(phnum):
                base = phoff + j * phent
                self.ph.append({f: _u(data, base + o, s, le) for f, o, s in PH_LAYOUT[cls]})
                self.boundaries.update((base, base + phent))
                if j < MAX_REC:
                    for f, o, s in PH_LAYOUT[cls]:
                        self.fields.append({'label': 'ph[%d].%s' % (j, f), 'off': base + o, 'size': s, 'group': 'hdr',
                                            'S': W.PHDR_SIZE[cls]})
            if phnum:
                self.regions.append((phoff, phoff + phnum * phent))
        # typed records
        seen = set()
        for i, h in enumerate(self.sh):
            self._records('s%d' % i, h['sh_type'], h['sh_offset'], h['sh_size'], data, seen)
        for j, p in enumerate(self.ph):
            t = {PT_DYNAMIC: SHT_DYNAMIC, PT_NOTE: SHT_NOTE}.get(p['p_type'])
            if t:
                self._records('p%d' % j, t, p['p_offset'], p['p_filesz'], data, seen)

    def _add(self, label, off, size, group, S):
        self.fields.append({'label': label, 'off': off, 'size': size, 'group': group, 'S': S})

    def _records(self, tag, typ, off, size, data, seen):
        n = len(data)
        cls, le = self.cls, self.le
        if typ not in (SHT_DYNAMIC, SHT_NOTE, SHT_HASH, SHT_GNU_HASH, SHT_VERNEED, SHT_VERDEF):
            return
        if off <= 0 or off >= n or size <= 0 or off + size > n or (typ, off) in seen:
            return
        seen.add((typ, off))
        end = off + size
        if typ == SHT_DYNAMIC:
            esz = W.DYN_SIZE[cls]
            for k in range(min(size // esz, MAX_REC)):
                for f, o, s in DYN_LAYOUT[cls]:
                    self._add('dyn.%s[%d].%s' % (tag, k, f), off + k * esz + o, s, 'rec', esz)
            self.regions.append((off, end))
        elif typ == SHT_NOTE:
            pos, k = off, 0
            while pos + 12 <= end and k < MAX_REC:
                for f, o, s in NHDR_LAYOUT:
                    self._add('note.%s[%d].%s' % (tag, k, f), pos + o, s, 'rec', 12)
                namesz, descsz = _u(data, pos, 4, le), _u(data, pos + 4, 4, le)
                dpos = pos + 12 + (namesz + 3) // 4 * 4
                if _u(data, pos + 8, 4, le) == 5 and data[pos + 12:pos + 16] == b'GNU\0':
                    # NT_GNU_PROPERTY_TYPE_0: array of {pr_type, pr_datasz, data, padding to 4/8}
                    q, j, al = dpos, 0, cls // 8
                    while q + 8 <= min(dpos + descsz, end) and j < 8:
                        self._add('prop.%s[%d][%d].pr_type' % (tag, k, j), q, 4, 'rec', 8)
                        self._add('prop.%s[%d][%d].pr_datasz' % (tag, k, j), q + 4, 4, 'rec', 8)
                        q += (8 + _u(data, q + 4, 4, le) + al - 1) // al * al
                        j += 1
                pos = dpos + (descsz + 3) // 4 * 4
                k += 1
            self.regions.append((off, end))
        elif typ == SHT_HASH:
            if size >= 8:
                self._add('hash.%s.nbucket' % tag, off, 4, 'rec', 4)
                self._add('hash.%s.nchain' % tag, off + 4, 4, 'rec', 4)
                for k in range(min((size - 8) // 4, 8)):
                    self._add('hash.%s.word[%d]' % (tag, k), off + 8 + 4 * k, 4, 'rec', 4)
                self.regions.append((off, end))
        elif typ == SHT_GNU_HASH:
            if size >= 16:
                for k, f in enumerate(('nbuckets', 'symoffset', 'bloom_size', 'bloom_shift')):
                    self._add('gnuhash.%s.%s' % (tag, f), off + 4 * k, 4, 'rec', 4)
                nb, bs = _u(data, off, 4, le), _u(data, off + 8, 4, le)
                bo = off + 16 + bs * (cls // 8)
                co = bo + 4 * nb
                for k in range(min(nb, 8)):
                    if bo + 4 * k + 4 <= end:
                        self._add('gnuhash.%s.bucket[%d]' % (tag, k), bo + 4 * k, 4, 'rec', 4)
                for k in range(8):
                    if co + 4 * k + 4 <= end:
                        self._add('gnuhash.%s.chain[%d]' % (tag, k), co + 4 * k, 4, 'rec', 4)
                self.regions.append((off, end))
        elif typ in (SHT_VERNEED, SHT_VERDEF):
            main, aux = (VERNEED_LAYOUT, VERNAUX_LAYOUT) if typ == SHT_VERNEED else (VERDEF_LAYOUT, VERDAUX_LAYOUT)
            nm = 'verneed' if typ == SHT_VERNEED else 'verdef'
            msz = 16 if typ == SHT_VERNEED else 20
            asz = 16 if typ == SHT_VERNEED else 8
            pos, k = off, 0
            while pos + msz <= end and k < 8:
                for f, o, s in main:
                    self._add('%s.%s[%d].%s' % (nm, tag, k, f), pos + o, s, 'ver', msz)
                if typ == SHT_VERNEED:
                    cnt, auxo, nxt = _u(data, pos + 2, 2, le), _u(data, pos + 8, 4, le), _u(data, pos + 12, 4, le)
                else:
                    cnt, auxo, nxt = _u(data, pos + 6, 2, le), _u(data, pos + 12, 4, le), _u(data, pos + 16, 4, le)
                ap = pos + auxo
                for a in range(min(cnt, 4)):
                    if ap + asz > end:
                        break
                    for f, o, s in aux:
                        self._add('%s.%s[%d].aux[%d].%s' % (nm, tag, k, a, f), ap + o, s, 'ver', asz)
                    an = _u(data, ap + (12 if typ == SHT_VERNEED else 4), 4, le)
                    if not an:
                        break
                    ap += an
                if not nxt:
                    break
                pos += nxt
                k += 1

    def read_by_battery(self, off, end=None):
        end = off + 1 if end is None else end
        return any(off < e and end > s for s, e in self.regions)


def boundary_values(fld, orig, file_len):
    """Boundary values of the design for one field, truncated to the field width, original excluded."""
    S = fld['S']
    m = (1 << (8 * fld['size'])) - 1
    raw = [0, 1, S - 1, S, S + 1, 0xff00, 0xffff, 1 << 31, (1 << 32) - 1, (1 << 64) - 1, file_len - 1, file_len,
           file_len + 1, orig - 1, orig + 1]
    out = []
    for v in raw:
        v &= m
        if v != orig and v not in out:
            out.append(v)
    return out


def pair_values(fld, orig, file_len, tier):
    if tier == 'thorough':
        return boundary_values(fld, orig, file_len)
    m = (1 << (8 * fld['size'])) - 1
    raw = [0, 0xffff, 1 << 31, m, file_len + 1, fld['S'] - 1]
    if fld['size'] == 2:
        raw.append(0xff00)      # the largest count / index below the reserved range: far more records than the file has bytes
    out = []
    for v in raw:
        v &= m
        if v != orig and v not in out:
            out.append(v)
    return out


# ---------------------------------------------------------------------------
# seeds

def _verneed(le, file_off, name_off, other):
    e = W.E(le)
    return struct.pack(e + 'HHIII', 1, 1, file_off, 16, 0) + struct.pack(e + 'IHHII', W.sysv_hash(b'GLIBC_2.2.5'), 0, other, name_off, 0)


def _verdef(le, name_off):
    e = W.E(le)
    return struct.pack(e + 'HHHHIII', 1, 1, 1, 1, W.sysv_hash(b'V1'), 20, 0) + struct.pack(e + 'II', name_off, 0)


def _model(kind, cls, le):
    m = {'cls': cls, 'le': le, 'e_machine': 62 if cls == 64 else 3, 'e_type': 3, 'osabi': 0}
    if kind == 'min':
        m.update(sections=[], segments=[])
        return m
    if kind == 'seg':
        m.update(sections=[], segments=[
            {'p_type': 6, 'p_flags': 4, 'p_offset': ['ph_off', 0], 'p_vaddr': 0x400040, 'p_paddr': 0x400040,
             'p_filesz': ['ph_size', 0], 'p_memsz': ['ph_size', 0], 'p_align': 8},
            {'p_type': 1, 'p_flags': 5, 'p_offset': 0, 'p_vaddr': 0x400000, 'p_paddr': 0x400000,
             'p_filesz': ['file_len', 0], 'p_memsz': ['file_len', 0], 'p_align': 0x1000},
            {'p_type': 0x6474e551, 'p_flags': 6, 'p_align': 16}], tail=24)
        return m
    text = {'name': '.text', 'sh_type': 1, 'sh_flags': 6, 'sh_addr': 0x1000, 'sh_addralign': 16,
            'data': bytes(range(0x90, 0xa0))}
    if kind in ('sec', 'xnum'):
        secs = [{'name': '', 'sh_type': 0}, text,
                {'name': '.data', 'sh_type': 1, 'sh_flags': 3, 'sh_addr': 0x2000, 'sh_addralign': 4, 'data': b'DATA1234'},
                {'name': '.bss', 'sh_type': 8, 'sh_flags': 3, 'sh_addr': 0x3000, 'sh_addralign': 4, 'data': None,
                 'sh_offset': 0x80, 'sh_size': 0x40},
                {'name': '.shstrtab', 'sh_type': 3, 'data': b''}]
        m.update(sections=secs, segments=[], shstrndx=4)
        if kind == 'xnum':
            m['segments'] = [{'p_type': 1, 'p_flags': 5, 'p_offset': 0, 'p_vaddr': 0, 'p_paddr': 0,
                              'p_filesz': ['file_len', 0], 'p_memsz': ['file_len', 0], 'p_align': 0x1000},
                             {'p_type': 0x6474e551, 'p_flags': 6, 'p_align': 16}]
            m['xnum'] = {'sh': True, 'ph': True, 'str': True}
            m['order'] = ['sh', 'ph', 1, 2, 4]
        return m
    assert kind == 'full'
    dynstr = b'\0libc.so.6\0GLIBC_2.2.5\0foo\0bar\0V1\0'
    o_lib, o_ver, o_foo, o_bar, o_v1 = 1, 11, 23, 27, 31
    # gnu hash: symbols from index 1 sorted by hash % nbuckets
    names = [b'foo', b'bar']
    names.sort(key=lambda s: W.gnu_hash(s) % 2)
    offs = {b'foo': o_foo, b'bar': o_bar}
    dynsym = W.enc_sym(cls, le, 0, 0, 0, 0, 0, 0) + b''.join(
        W.enc_sym(cls, le, offs[nm], 0x1000 + 4 * k, 4, 0x12, 0, 1) for k, nm in enumerate(names))
    symnames = [b''] + names
    strtab = b'\0main\0local\0'
    symtab = (W.enc_sym(cls, le, 0, 0, 0, 0, 0, 0) + W.enc_sym(cls, le, 6, 0x1004, 0, 0x02, 0, 1) +
              W.enc_sym(cls, le, 1, 0x1000, 8, 0x12, 0, 1))
    notes = (W.enc_note(le, b'GNU\0', bytes(range(20)), 3) +
             W.enc_note(le, b'GNU\0', struct.pack(W.E(le) + 'IIII', 0, 3, 2, 0), 1) +
             W.enc_note(le, b'XY\0', b'abcde', 0x42) +
             # NT_GNU_PROPERTY_TYPE_0 with one GNU_PROPERTY_X86_FEATURE_1_AND property (padded to the class word)
             W.enc_note(le, b'GNU\0', struct.pack(W.E(le) + 'III', 0xc0000002, 4, 3) + b'\0' * (4 if cls == 64 else 0), 5))
    secs = [
        {'name': '', 'sh_type': 0},
        text,
        {'name': '.dynstr', 'sh_type': 3, 'sh_flags': 2, 'sh_addralign': 1, 'data': dynstr},
        {'name': '.dynsym', 'sh_type': 11, 'sh_flags': 2, 'sh_link': 2, 'sh_info': 1, 'sh_addralign': 8,
         'sh_entsize': W.SYM_SIZE[cls], 'data': dynsym},
        {'name': '.hash', 'sh_type': SHT_HASH, 'sh_flags': 2, 'sh_link': 3, 'sh_addralign': 8, 'sh_entsize': 4,
         'data': W.enc_sysv_hash(le, symnames, 2)},
        {'name': '.gnu.hash', 'sh_type': SHT_GNU_HASH, 'sh_flags': 2, 'sh_link': 3, 'sh_addralign': 8,
         'data': W.enc_gnu_hash(cls, le, symnames, 1, 2, 1, 5)},
        {'name': '.gnu.version', 'sh_type': 0x6fffffff, 'sh_flags': 2, 'sh_link': 3, 'sh_addralign': 2, 'sh_entsize': 2,
         'data': struct.pack(W.E(le) + 'HHH', 0, 2, 1)},
        {'name': '.gnu.version_r', 'sh_type': SHT_VERNEED, 'sh_flags': 2, 'sh_link': 2, 'sh_info': 1, 'sh_addralign': 4,
         'data': _verneed(le, o_lib, o_ver, 2)},
        {'name': '.gnu.version_d', 'sh_type': SHT_VERDEF, 'sh_flags': 2, 'sh_link': 2, 'sh_info': 1, 'sh_addralign': 4,
         'data': _verdef(le, o_v1)},
        {'name': '.dynamic', 'sh_type': SHT_DYNAMIC, 'sh_flags': 3, 'sh_link': 2, 'sh_addralign': 8,
         'sh_entsize': W.DYN_SIZE[cls], 'data': b'\0' * (13 * W.DYN_SIZE[cls])},
        {'name': '.note.gnu.build-id', 'sh_type': SHT_NOTE, 'sh_flags': 2, 'sh_addralign': 4, 'data': notes},
        {'name': '.symtab', 'sh_type': 2, 'sh_link': 12, 'sh_info': 2, 'sh_addralign': 8, 'sh_entsize': W.SYM_SIZE[cls],
         'data': symtab},
        {'name': '.strtab', 'sh_type': 3, 'sh_addralign': 1, 'data': strtab},
        {'name': '.shstrtab', 'sh_type': 3, 'sh_addralign': 1, 'data': b''},
    ]
    m.update(sections=secs, shstrndx=13, segments=[
        {'p_type': 1, 'p_flags': 5, 'p_offset': 0, 'p_vaddr': 0x400000, 'p_paddr': 0x400000,
         'p_filesz': ['file_len', 0], 'p_memsz': ['file_len', 0], 'p_align': 0x1000},
        {'p_type': PT_DYNAMIC, 'p_flags': 6, 'p_offset': ['sec_off', 9, 0], 'p_vaddr': ['sec_addr', 9, 0],
         'p_paddr': ['sec_addr', 9, 0], 'p_filesz': ['sec_size', 9, 0], 'p_memsz': ['sec_size', 9, 0], 'p_align': 8},
        {'p_type': PT_NOTE, 'p_flags': 4, 'p_offset': ['sec_off', 10, 0], 'p_vaddr': ['sec_addr', 10, 0],
         'p_paddr': ['sec_addr', 10, 0], 'p_filesz': ['sec_size', 10, 0], 'p_memsz': ['sec_size', 10, 0], 'p_align': 4},
        {'p_type': 0x6474e551, 'p_flags': 6, 'p_align': 16}])
    # two-pass: addresses = 0x400000 + file offset, dynamic values point at them
    _, R = W.build(m)
    for i, s in enumerate(secs):
        if s.get('sh_flags', 0) & 2 and i != 1:
            s['sh_addr'] = 0x400000 + R['sh'][i]['sh_offset']
    addr = lambda i: 0x400000 + R['sh'][i]['sh_offset']
    dyn = [(1, o_lib), (4, addr(4)), (0x6ffffef5, addr(5)), (5, addr(2)), (6, addr(3)), (10, len(dynstr)),
           (11, W.SYM_SIZE[cls]), (0x6ffffff0, addr(6)), (0x6ffffffe, addr(7)), (0x6fffffff, 1), (0x6ffffffc, addr(8)),
           (0x6ffffffd, 1), (0, 0)]
    assert len(dyn) * W.DYN_SIZE[cls] == len(secs[9]['data'])
    secs[9]['data'] = b''.join(W.enc_dyn(cls, le, t, v) for t, v in dyn)
    return m


SEED_KINDS = ('min', 'sec', 'seg', 'full', 'xnum')
_seed_cache = {}


def gen_seed_names():
    return ['gen:%s%d%s' % (k, c, 'le' if le else 'be') for k in SEED_KINDS for c in (32, 64) for le in (True, False)]


def repo_path(rel):
    return os.path.join(core.REPO, rel)


def shipped_elfs():
    """[(repo-relative path, size)] of all non-empty shipped ELF files, sorted by (size, path)."""
    if 'shipped' not in _seed_cache:
        out = []
        for d in ('test/testfiles_for_unittests', 'test/testfiles_for_readelf'):
            top = repo_path(d)
            for root, dirs, files in os.walk(top, followlinks=True):
                dirs.sort()
                for f in sorted(files):
                    p = os.path.join(root, f)
                    try:
                        with open(p, 'rb') as fh:
                            head = fh.read(6)
                    except OSError:
                        continue
                    if head[:4] == MAGIC:
                        out.append((d + '/' + os.path.relpath(p, top).replace(os.sep, '/'), os.path.getsize(p)))
        out.sort(key=lambda t: (t[1], t[0]))
        _seed_cache['shipped'] = out
    return _seed_cache['shipped']


def seed_bytes(src):
    """src: 'gen:<kind><cls><le|be>' or 'file:<repo-relative path>' -> bytes"""
    d = _seed_cache.get(src)
    if d is not None:
        return d
    if src.startswith('gen:'):
        spec = src[4:]
        le = spec.endswith('le')
        cls = int(spec[-4:-2])
        kind = spec[:-4]
        data, R = W.build(_model(kind, cls, le))
        sc = Scan(data)
        # cross-check the independent scanner against the writer's model (harness self-check)
        if not sc.ok or len(sc.sh) != R['shnum'] or len(sc.ph) != R['phnum']:
            raise core.HarnessError('scanner disagrees with writer on %s' % src)
        for i, h in enumerate(R['sh']):
            if any(sc.sh[i][f] != h[f] & W.mask(cls) for f in W.SH_FIELDS):
                raise core.HarnessError('scanner/writer shdr mismatch on %s[%d]' % (src, i))
        for j, p in enumerate(R['ph']):
            if any(sc.ph[j][f] != p[f] for f in W.PH_FIELDS):
                raise core.HarnessError('scanner/writer phdr mismatch on %s[%d]' % (src, j))
        if any(sc.eh[f] != R['eh'][f] for f in W.EH_FIELDS):
            raise core.HarnessError('scanner/writer ehdr mismatch on %s' % src)
    elif src.startswith('file:'):
        with open(repo_path(src[5:]), 'rb') as fh:
            data = fh.read()
    else:
        raise core.HarnessError('bad seed source %r' % (src,))
    _seed_cache[src] = data
    return data


def seed_scan(src):
    k = 'scan:' + src
    if k not in _seed_cache:
        _seed_cache[k] = Scan(seed_bytes(src))
    return _seed_cache[k]


def small_seeds(limit=SMALL):
    return gen_seed_names() + ['file:' + p for p, sz in shipped_elfs() if sz <= limit]


# ---------------------------------------------------------------------------
# cases

def apply_muts(data, muts, le):
    """muts: list of ['set', label, off, size, value] | ['trunc', n] | ['byte', off, value] | ['splice', off, bytes]"""
    buf = bytearray(data)
    for mu in muts:
        op = mu[0]
        if op == 'set':
            _, _label, off, size, value = mu
            if off + size <= len(buf):
                buf[off:off + size] = (value & ((1 << (8 * size)) - 1)).to_bytes(size, 'little' if le else 'big')
        elif op == 'byte':
            if mu[1] < len(buf):
                buf[mu[1]] = mu[2] & 0xff
        elif op == 'splice':
            off, blob = mu[1], bytes(mu[2])
            if off < len(buf):
                buf[off:off + len(blob)] = blob[:len(buf) - off]
        elif op == 'trunc':
            del buf[mu[1]:]
        else:
            raise core.HarnessError('bad mutation %r' % (mu,))
    return bytes(buf)


def make_case(src, muts, family):
    """Build the JSON-able case.  The bytes are stored when small; otherwise source + mutations replay it."""
    case = {'src': src, 'muts': muts, 'family': family}
    if src is not None:
        seed = seed_bytes(src)
        sc = seed_scan(src)
        data = apply_muts(seed, muts, sc.le if sc.ok else True)
        if len(data) <= STORE_MAX:
            case['data'] = data
    return case


def materialize(case):
    if case.get('data') is not None:
        return bytes(case['data'])
    src = case['src']
    sc = seed_scan(src)
    return apply_muts(seed_bytes(src), case['muts'], sc.le if sc.ok else True)


def passes_identify(data):
    return data[:4] == MAGIC and data[4:5] in (b'\x01', b'\x02') and data[5:6] in (b'\x01', b'\x02')


def nontrivial(case, data):
    if not passes_identify(data):
        return False
    src = case.get('src')
    if src is None:
        return len(data) >= W.EHDR_SIZE[32 if data[4] == 1 else 64]
    try:
        seed = seed_bytes(src)
        sc = seed_scan(src)
    except (OSError, core.HarnessError):
        return False
    if not sc.ok or data == seed:
        return False
    n = min(len(data), len(seed))
    if len(data) < len(seed) and sc.read_by_battery(len(data), len(seed)):
        return True
    for s, e in sc.regions:
        if data[s:min(e, n)] != seed[s:min(e, n)]:
            return True
    return False


_AS_CAP = 3 << 30    # 16 workers x 3 GiB stays below the memory of the machine (a worker killed by the kernel would be lost silently)
_as_capped = []


def _cap_address_space():
    """Once per worker process: an allocation far beyond anything a file of a few MiB justifies fails at once with MemoryError (reported as
    a violation by the battery) instead of driving the machine into swap for minutes."""
    if _as_capped:
        return
    _as_capped.append(True)
    try:
        import resource
        soft, hard = resource.getrlimit(resource.RLIMIT_AS)
        cap = _AS_CAP if hard == resource.RLIM_INFINITY else min(_AS_CAP, hard)
        if soft == resource.RLIM_INFINITY or soft > cap:
            resource.setrlimit(resource.RLIMIT_AS, (cap, hard))
    except Exception:  # noqa - no such limit on this platform: the budgets still apply
        pass


def run_case(ctx, case):
    ELFFile, ELFError = lib()
    data = materialize(case)
    if not case.get('bb'):
        _cap_address_space()
    if case.get('bb'):
        # replay of a finding of the -bb child: one input, in a child interpreter again
        import base64
        from vf import childenv
        res = childenv.run(_BB_CHILD, {'inputs': [base64.b64encode(data).decode('ascii')]}, core.REPO, flags=('-bb',), legacy=False)
        for _k, name, msg in res['bad']:
            ctx.fail('open|interpreter=-bb|%s' % name, 'under python -bb ELFFile() raised %s: %s' % (name, msg), case)
        ctx.case(('bb', data), True)
        return
    family = case.get('family', 'replay')
    ctx.count('family.' + family)
    stream = CountingBytesIO(data)
    ef = None
    ident = passes_identify(data)
    try:
        ef = ELFFile(stream)
        ctx.count('open.ok')
    except ELFError:
        ctx.count('open.ELFError' + ('' if ident else '.identify'))
    except Exception as e:  # noqa - property (a): anything but ELFError (incl. MemoryError, RecursionError) is a violation
        ctx.count('open.violation')
        ctx.fail_exc('open', e, case)
    # (a) holds for every kind of stream: a real file, a memory map and a minimal read/seek/tell object see the same bytes; their seek()
    # fails differently for unrepresentable offsets (ValueError / OSError instead of BytesIO's OverflowError) and may return None
    import zlib
    big = any(mu[0] == 'set' and mu[4] >= (1 << 31) for mu in (case.get('muts') or []))
    # every case with a field beyond 2**31 (where the kinds differ most) and a third of the others
    for kind in (streams.KINDS if big or zlib.crc32(data) % 3 == 0 else ()):
        try:
            with streams.opened(data, kind) as st2:
                ELFFile(st2)
            ctx.count('open.%s.ok' % kind)
        except ELFError:
            ctx.count('open.%s.ELFError' % kind)
        except Exception as e:  # noqa
            ctx.fail_exc('open|stream=%s' % kind, e, case)
    nsec = nseg = None
    if ef is not None:
        b = Battery(ef, stream, len(data))
        if case.get('mem'):
            # allocation that never passes through the stream (e.g. the zero block of a no-bits section) is invisible to the read budget:
            # these cases run the battery under tracemalloc and bound the peak of the traced memory
            import tracemalloc
            tracemalloc.start()
            try:
                nsec, nseg = b.run()
                peak = tracemalloc.get_traced_memory()[1]
            finally:
                tracemalloc.stop()
            ctx.count('battery.memory-measured')
            if peak > MEM_A + MEM_B * max(len(data), SIZE_FLOOR):
                ctx.fail('battery.memory-peak', 'the enumeration battery allocated up to %d bytes on a %d-byte input (bound %d + %d*max(len,%d))' % (
                    peak, len(data), MEM_A, MEM_B, SIZE_FLOOR), case)
        else:
            nsec, nseg = b.run()
        ctx.count('battery.runs')
        bb = byte_budget(len(data))
        for step in Battery.STEPS:
            if step not in b.work:
                continue
            lines, got, peak, req, outcome, over = b.work[step]
            ctx.count('battery.step.%s.%s' % (step, outcome))
            if outcome == 'budget':
                ctx.fail('battery.line-budget|step=%s' % step,
                         'battery step %s still running after %d line events in elftools frames on a %d-byte input '
                         '(budget %d*max(len,%d) = %d); sections so far %d, segments so far %d'
                         % (step, lines, len(data), LINE_B.get(step, LINE_B_DEFAULT), SIZE_FLOOR,
                            line_budget(len(data), step), nsec, nseg), case)
            elif outcome == 'memory':
                ctx.fail('battery.MemoryError|step=%s' % step, 'battery step %s raised MemoryError on a %d-byte input'
                         % (step, len(data)), case)
            for site in sorted(over):
                ctx.fail('battery.read-size|step=%s|site=%s' % (step, site),
                         'battery step %s (%s) asked the stream of a %d-byte input for %d bytes in a single read() '
                         '(bound %d*max(len,%d) = %d); a file object allocates the requested size up front'
                         % (step, site, len(data), over[site], BYTE_B, SIZE_FLOOR, bb), case)
            if got > bb:
                ctx.fail('battery.bytes-read|step=%s' % step,
                         'battery step %s read %d bytes in total from a %d-byte input (bound %d*max(len,%d) = %d)'
                         % (step, got, len(data), BYTE_B, SIZE_FLOOR, bb), case)
        for step in Battery.EXTRA_STEPS:
            if step in b.work:
                ctx.count('%s.%s' % (step, b.work[step][4]))
        for step, names in b.excs.items():
            for nm in names:
                ctx.count('battery.exc.%s' % nm)
        if family == 'valid' and (b.excs or b.blown):
            ctx.count('valid.battery-raised')     # informational: shipped files include deliberately corrupt ones
    elif family == 'valid':
        ctx.count('valid.rejected')
    nt = nontrivial(case, data)
    if nt:
        ctx.count('nontrivial.' + family)
    muts = case.get('muts') or []
    ctx.case(data, nt, {'src': case.get('src'), 'family': family,
                        'muts': [list(mu) if mu[0] != 'splice' else ['splice', mu[1], len(mu[2])] for mu in muts[:6]],
                        'len': len(data), 'opened': ef is not None, 'sections': nsec, 'segments': nseg,
                        'head_hex': data[:64].hex()})


# ---------------------------------------------------------------------------
# deterministic enumerations (bulk)

def _field_value(sc, seed, fld):
    return _u(seed, fld['off'], fld['size'], sc.le)


NON_STEERING = ('sh_addr', 'sh_addralign', 'p_paddr', 'p_align', 'p_memsz', 'p_flags', 'e_entry', 'e_flags', 'e_version',
                'e_ehsize')   # parsed by the battery but never used for an offset, a count, a type or a lookup


def enum_truncations(tier):
    """every truncation length of the small seeds (quick: every length of the 20 generated seeds; shipped files
    <= 4 KiB at the first 128 lengths, header-table boundaries +-1 and stride 31)"""
    for src in small_seeds():
        seed = seed_bytes(src)
        n = len(seed)
        sc = seed_scan(src)
        if tier == 'thorough' or src.startswith('gen:'):
            lengths = range(0, n + 1)
        else:
            keep = set(range(0, 129)) | set(range(0, n + 1, 31)) | {n - 2, n - 1, n}
            for bnd in sc.boundaries:
                keep.update((bnd - 1, bnd, bnd + 1))
            lengths = sorted(k for k in keep if 0 <= k <= n)
        for k in lengths:
            yield make_case(src, [['trunc', k]] if k < n else [], 'trunc' if k < n else 'valid')


def enum_big_truncations(tier):
    """larger shipped files: truncation at every header-table entry boundary +-1 (and the valid file)"""
    cap = 1 << 16 if tier == 'quick' else 1 << 23
    for p, sz in shipped_elfs():
        if sz <= SMALL or sz > cap:
            continue
        src = 'file:' + p
        sc = seed_scan(src)
        if not sc.ok:
            continue
        keep = set()
        bnds = sorted(sc.boundaries)
        if tier == 'quick' and len(bnds) > 9:
            bnds = bnds[:3] + bnds[len(bnds) // 2 - 1:len(bnds) // 2 + 2] + bnds[-3:]
        for bnd in bnds:
            keep.update((bnd - 1, bnd, bnd + 1))
        for k in sorted(k for k in keep if 0 < k < sz):
            yield make_case(src, [['trunc', k]], 'trunc.big')
        yield make_case(src, [], 'valid')


def enum_byte_subst(tier):
    cap = 1024 if tier == 'quick' else 1 << 16
    srcs = gen_seed_names() + ['file:' + p for p, sz in shipped_elfs() if sz <= cap]
    for src in srcs:
        seed = seed_bytes(src)
        for off in range(min(64, len(seed))):
            o = seed[off]
            for v in sorted({0x00, 0xff, (o + 1) & 0xff, o ^ 0x80} - {o}):
                yield make_case(src, [['byte', off, v]], 'bytesub')


def enum_single_fields(tier):
    """every field x every boundary value (quick: 18 generated seeds + shipped files <= 700 bytes; the full value
    set in selected cells, a reduced 6-value set elsewhere, 3 values for fields that steer nothing)"""
    for src in small_seeds(700 if tier == 'quick' else SMALL):
        if tier == 'quick' and src in ('gen:full32be', 'gen:full64be'):
            continue
        sc = seed_scan(src)
        if not sc.ok:
            continue
        seed = seed_bytes(src)
        gen = src.startswith('gen:')
        # quick: the full boundary set in two cells of the cheap seeds and one cell of the 14-section seed
        rich = gen and (src == 'gen:full64le' or (not src.startswith('gen:full') and src[-4:] in ('32le', '64be')))
        for fld in sc.fields:
            steer = fld['label'].split('.')[-1] not in NON_STEERING
            orig = _field_value(sc, seed, fld)
            if tier == 'thorough' or (rich and steer):
                vals = boundary_values(fld, orig, len(seed))
            elif steer:
                vals = pair_values(fld, orig, len(seed), 'quick')
            elif gen:
                vals = pair_values(fld, orig, len(seed), 'quick')[:1] + pair_values(fld, orig, len(seed), 'quick')[3:5]
            else:
                continue
            for v in vals:
                yield make_case(src, [['set', fld['label'], fld['off'], fld['size'], v]], 'field1')


def pair_seeds(tier):
    if tier == 'thorough':
        return gen_seed_names() + ['file:' + p for p, sz in shipped_elfs() if sz <= 1024]
    return ['gen:min32le', 'gen:min64be', 'gen:sec32le', 'gen:sec64be', 'gen:xnum32be', 'gen:xnum64le', 'gen:seg64le',
            'gen:seg32be', 'gen:full64le']


def enum_field_pairs(tier):
    """every pair of constructor-relevant fields x boundary values"""
    for src in pair_seeds(tier):
        sc = seed_scan(src)
        if not sc.ok:
            continue
        seed = seed_bytes(src)
        flds = [f for f in sc.fields if f['group'] == 'ctor']
        for a in range(len(flds)):
            for b in range(a + 1, len(flds)):
                fa, fb = flds[a], flds[b]
                for va in pair_values(fa, _field_value(sc, seed, fa), len(seed), tier):
                    for vb in pair_values(fb, _field_value(sc, seed, fb), len(seed), tier):
                        yield make_case(src, [['set', fa['label'], fa['off'], fa['size'], va],
                                              ['set', fb['label'], fb['off'], fb['size'], vb]], 'field2')


def enum_record_pairs(tier):
    """every pair of fields of one typed record (dynamic entry, note header, hash / gnu-hash header) x boundary values"""
    if tier == 'thorough':
        srcs = small_seeds(SMALL)
    else:
        srcs = ['gen:full32le', 'gen:full64be']
    for src in srcs:
        sc = seed_scan(src)
        if not sc.ok:
            continue
        seed = seed_bytes(src)
        recs = {}
        for f in sc.fields:
            if f['group'] == 'rec' and '.word[' not in f['label'] and '.bucket[' not in f['label'] and '.chain[' not in f['label']:
                recs.setdefault(f['label'].rsplit('.', 1)[0], []).append(f)
        for key in sorted(recs):
            flds = recs[key]
            for a in range(len(flds)):
                for b in range(a + 1, len(flds)):
                    fa, fb = flds[a], flds[b]
                    for va in pair_values(fa, _field_value(sc, seed, fa), len(seed), tier):
                        for vb in pair_values(fb, _field_value(sc, seed, fb), len(seed), tier):
                            yield make_case(src, [['set', fa['label'], fa['off'], fa['size'], va],
                                                  ['set', fb['label'], fb['off'], fb['size'], vb]], 'rec2')


MEM_A, MEM_B = 16 << 20, 64


def enum_alloc(tier):
    """a section header that claims a big no-bits (or string table / note / symbol table) section: its size must not become an allocation"""
    for src in pair_seeds(tier):
        sc = seed_scan(src)
        if not sc.ok:
            continue
        by = {f['label']: f for f in sc.fields}
        i = 0
        while 'sh[%d].sh_type' % i in by:
            ft, fs = by['sh[%d].sh_type' % i], by['sh[%d].sh_size' % i]
            for typ in (8, None):
                for size in (1 << 27, 0x0c000000):
                    muts = [['set', fs['label'], fs['off'], fs['size'], size]] + ([['set', ft['label'], ft['off'], ft['size'], typ]] if typ is not None else [])
                    c = make_case(src, muts, 'alloc')
                    c['mem'] = True
                    yield c
                    if i == 0 and typ is None:
                        # header 0 with the escapes switched on: its size / info field then is a *count* (sections, segments), which must
                        # not become an allocation either (a list or cache sized by the claimed count)
                        for lab, v in (('eh.e_shnum', 0), ('eh.e_phnum', 0xffff)):
                            if lab in by:
                                fe = by[lab]
                                fld = fs if lab == 'eh.e_shnum' else by['sh[0].sh_info']
                                val = size if lab == 'eh.e_shnum' else min(size, 0xffffffff)
                                c = make_case(src, [['set', fld['label'], fld['off'], fld['size'], val], ['set', fe['label'], fe['off'], fe['size'], v]], 'alloc')
                                c['mem'] = True
                                yield c
                    if 'eh.e_shstrndx' in by and i:
                        fe = by['eh.e_shstrndx']
                        c = make_case(src, muts + [['set', fe['label'], fe['off'], fe['size'], i]], 'alloc')
                        c['mem'] = True
                        yield c
            i += 1


def enum_escape_triples(tier):
    """The extended-numbering escapes move a count or index into section header 0, so three header fields decide together how far an
    enumeration runs: the escape value itself, the field of section 0 that then holds the number, and the entry size / table offset that
    decide where the entries are looked for.  Escape fixed, every pair of its companions x boundary values."""
    escapes = (('eh.e_shnum', 0, ('sh[0].sh_size', 'eh.e_shentsize', 'eh.e_shoff')),
               ('eh.e_phnum', 0xffff, ('sh[0].sh_info', 'eh.e_phentsize', 'eh.e_phoff')),
               ('eh.e_shstrndx', 0xffff, ('sh[0].sh_link', 'eh.e_shentsize', 'eh.e_shnum')))
    for src in pair_seeds(tier):
        sc = seed_scan(src)
        if not sc.ok:
            continue
        seed = seed_bytes(src)
        by = {f['label']: f for f in sc.fields}
        for esc, val, comps in escapes:
            if esc not in by or any(c not in by for c in comps):
                continue
            fe = by[esc]
            for a in range(len(comps)):
                for b in range(a + 1, len(comps)):
                    fa, fb = by[comps[a]], by[comps[b]]
                    for va in pair_values(fa, _field_value(sc, seed, fa), len(seed), tier) + [1 << 48, fa['S'] + 8]:
                        for vb in pair_values(fb, _field_value(sc, seed, fb), len(seed), tier) + [1 << 48, fb['S'] + 8]:
                            yield make_case(src, [['set', fe['label'], fe['off'], fe['size'], val],
                                                  ['set', fa['label'], fa['off'], fa['size'], va],
                                                  ['set', fb['label'], fb['off'], fb['size'], vb]], 'escape3')


ENUMS = (enum_truncations, enum_big_truncations, enum_byte_subst, enum_single_fields, enum_field_pairs,
         enum_record_pairs, enum_escape_triples, enum_alloc)


_BB_CHILD = r'''
import sys, io, json, base64, warnings
import elftools
from elftools.elf.elffile import ELFFile
from elftools.common.exceptions import ELFError
doc = json.load(sys.stdin)
out = {'lib': elftools.__file__, 'bytes_warning': sys.flags.bytes_warning, 'bad': [], 'ok': 0, 'elferror': 0}
for k, item in enumerate(doc['inputs']):
    data = base64.b64decode(item)
    try:
        ELFFile(io.BytesIO(data))
        out['ok'] += 1
    except ELFError:
        out['elferror'] += 1
    except BaseException as e:
        out['bad'].append([k, type(e).__name__, str(e)[:120]])
sys.stdout.write(json.dumps(out))
'''


def bb_inputs(tier):
    """deterministic constructor inputs for the -bb child: every truncation of the first 80 bytes and {0x00,0x03,0x81,0xff} in each of the
    first 24 bytes of the generated seeds"""
    out = []
    for src in gen_seed_names()[:6 if tier == 'quick' else None]:
        seed = seed_bytes(src)
        for n in range(0, min(len(seed), 80) + 1):
            out.append((src, [['trunc', n]], seed[:n]))
        for off in range(24):
            for v in (0x00, 0x03, 0x81, 0xff):
                if off < len(seed) and seed[off] != v:
                    out.append((src, [['byte', off, v]], seed[:off] + bytes([v]) + seed[off + 1:]))
    return out


def run_bb(ctx, tier):
    """Property (a) in an interpreter started with -bb (str() of a bytes object is an error there; the flag is fixed at start-up): the
    constructor still only succeeds or raises ELFError."""
    import base64
    from vf import childenv
    inputs = bb_inputs(tier)
    try:
        res = childenv.run(_BB_CHILD, {'inputs': [base64.b64encode(d).decode('ascii') for _s, _m, d in inputs]}, core.REPO, flags=('-bb',), legacy=False)
    except Exception as e:  # noqa
        raise core.HarnessError('C19 -bb child interpreter: %s' % e)
    if os.path.realpath(os.path.dirname(os.path.dirname(res['lib']))) != os.path.realpath(core.REPO) or res['bytes_warning'] < 2:
        raise core.HarnessError('-bb child interpreter: imported %s, bytes_warning=%r' % (res['lib'], res['bytes_warning']))
    for k, name, msg in res['bad']:
        src, muts, data = inputs[k]
        case = make_case(src, muts, 'bb')
        case['data'] = data
        case['bb'] = True
        ctx.fail('open|interpreter=-bb|%s' % name, 'under python -bb ELFFile() raised %s: %s' % (name, msg), case)
    ctx.count('bb.inputs', len(inputs))
    ctx.count('bb.ok', res['ok'])
    ctx.count('bb.ELFError', res['elferror'])
    ctx.evaluations += len(inputs)
    ctx.counters['bulk_nontrivial'] += len(inputs)


def bulk(ctx, tier, shard, nshards):
    if shard == nshards - 1:
        run_bb(ctx, tier)
    for en in ENUMS:
        for case in _sharded(en, tier, shard, nshards):
            ctx.cur_buckets = set()
            run_case(ctx, case)
            ctx.count('bulk_cases')
    # quick: 4 of the shards run the fuzzer (its start-up costs ~2 s), thorough: all of them
    fz = [k for k in range(nshards) if tier == 'thorough' or k % 4 == 0 or nshards < 4]
    if shard in fz:
        run_atheris(ctx, tier, fz.index(shard), len(fz))


def _sharded(en, tier, shard, nshards):
    """Every case of the enumeration belongs to exactly one shard; the index is scrambled so that the regular
    structure of the enumerations (same field of every seed) does not pile the expensive cases onto one shard."""
    for i, case in enumerate(en(tier)):
        if (((i * 0x9E3779B1) & 0xffffffff) >> 15) % nshards == shard:
            yield case


# ---------------------------------------------------------------------------
# seeded search

def build_case(ch, tier):
    k = ch.int(0, 19)
    if k <= 1:
        return {'src': None, 'muts': [], 'family': 'random', 'data': ch.bytes(0, 200)}
    if k <= 5:
        cls, le = ch.choice([1, 2]), ch.choice([1, 2])
        body = ch.bytes(0, 300)
        if ch.bool():
            # plausible header skeleton: small numbers in the count/size fields
            body = bytes(b if ch.int(0, 3) else ch.choice([0, 1, 0x34, 0x40, 0x20, 0x38, 0x28, 0xff]) for b in body)
        return {'src': None, 'muts': [], 'family': 'random.ident', 'data': MAGIC + bytes([cls, le]) + body}
    seeds = small_seeds()
    gens = gen_seed_names()
    src = ch.choice(gens) if ch.int(0, 9) < 7 else ch.choice(seeds)
    sc = seed_scan(src)
    seed = seed_bytes(src)
    if not sc.ok:
        return make_case(src, [['trunc', ch.int(0, len(seed))]], 'trunc')
    muts = []
    nf = ch.choice([1, 2, 2, 3, 3, 4])
    groups = {}
    for f in sc.fields:
        groups.setdefault(f['group'], []).append(f)
    for _ in range(nf):
        g = ch.int(0, 9)
        grp = 'ctor' if g < 5 else 'hdr' if g < 7 else 'rec' if g < 9 else 'ver'
        pool = groups.get(grp) or sc.fields
        fld = ch.choice(pool)
        orig = _field_value(sc, seed, fld)
        vals = boundary_values(fld, orig, len(seed))
        if ch.int(0, 9) == 0:
            v = ch.word(8 * fld['size'])
        else:
            v = ch.choice(vals)
        muts.append(['set', fld['label'], fld['off'], fld['size'], v])
    family = 'fieldN'
    x = ch.int(0, 9)
    if x == 0:
        muts.append(['splice', ch.int(0, len(seed) - 1), ch.choice([b'\xff' * 8, b'\0' * 8, ch.bytes(1, 16)])])
        family = 'fieldN+splice'
    elif x == 1:
        muts.append(['trunc', ch.int(6, len(seed))])
        family = 'fieldN+trunc'
    return make_case(src, muts, family)


def strategy(tier):
    from hypothesis import strategies as st

    @st.composite
    def s(draw):
        return build_case(HypChooser(draw), tier)
    return s()


# ---------------------------------------------------------------------------
# optional atheris campaign on the constructor

ATHERIS_RUNS = {'quick': 8000, 'thorough': 800000}    # total over the shards that run it

_ATHERIS_TARGET = r'''
import sys, os, io, hashlib, traceback
sys.path.insert(0, %(deps)r)
sys.path.insert(0, %(repo)r)
import atheris
with atheris.instrument_imports(include=['elftools']):
    from elftools.elf.elffile import ELFFile
    from elftools.common.exceptions import ELFError
OUT = %(out)r
seen = set()
def one(data):
    try:
        ELFFile(io.BytesIO(data))
    except ELFError:
        pass
    except Exception as e:
        tb = traceback.extract_tb(e.__traceback__)
        key = (type(e).__name__, tb[-1].filename, tb[-1].lineno)
        if key not in seen and len(seen) < 64:
            seen.add(key)
            with open(os.path.join(OUT, hashlib.sha1(data).hexdigest()), 'wb') as f:
                f.write(data)
atheris.Setup([sys.argv[0], %(corpus)r, '-runs=%(runs)d', '-seed=%(seed)d', '-max_len=4096', '-len_control=0',
               '-print_final_stats=1', '-verbosity=0'], one)
atheris.Fuzz()
'''


def run_atheris(ctx, tier, shard=0, nshards=1):
    import shutil
    import tempfile
    import subprocess
    deps = os.path.join(core.VERIF, '.deps')
    probe = subprocess.run([sys.executable, '-c', 'import sys; sys.path.insert(0, %r); import atheris' % deps],
                           stdout=subprocess.DEVNULL, stderr=subprocess.DEVNULL)
    if probe.returncode != 0:
        ctx.count('atheris.skipped')
        return
    tmp = tempfile.mkdtemp(prefix='vf_c19_atheris_')
    try:
        corpus, out = os.path.join(tmp, 'corpus'), os.path.join(tmp, 'out')
        os.makedirs(corpus)
        os.makedirs(out)
        for k, src in enumerate(small_seeds(2048)):
            with open(os.path.join(corpus, 'seed%03d' % k), 'wb') as f:
                f.write(seed_bytes(src))
        script = os.path.join(tmp, 'target.py')
        with open(script, 'w') as f:
            f.write(_ATHERIS_TARGET % {'deps': deps, 'repo': core.REPO, 'out': out, 'corpus': corpus,
                                       'runs': max(ATHERIS_RUNS[tier] // nshards, 1),
                                       'seed': ctx.seed * 1000 + shard + 1})
        r = subprocess.run([sys.executable, script], stdout=subprocess.PIPE, stderr=subprocess.STDOUT, cwd=tmp,
                           env=dict(os.environ, PYTHONDONTWRITEBYTECODE='1'))
        text = r.stdout.decode('utf-8', 'replace')
        done = 0
        for line in text.splitlines():
            if line.startswith('stat::number_of_executed_units:'):
                done = int(line.split(':')[-1])
        if r.returncode != 0 and not done:
            ctx.count('atheris.failed_to_run')
            return
        ctx.count('atheris.executions', done)
        # only the replay through the plain oracle decides
        for name in sorted(os.listdir(out)):
            with open(os.path.join(out, name), 'rb') as f:
                data = f.read()
            ctx.cur_buckets = set()
            run_case(ctx, {'src': None, 'muts': [], 'family': 'atheris', 'data': data})
            ctx.count('atheris.replayed')
    finally:
        shutil.rmtree(tmp, ignore_errors=True)


# ---------------------------------------------------------------------------

def evidence_extra(ctx):
    c = ctx.counters
    return {
        'budgets': {'line_events_per_byte': dict(LINE_B, default=LINE_B_DEFAULT), 'bytes_per_byte': BYTE_B,
                    'size_floor': SIZE_FLOOR},
        'atheris': ('skipped (not importable)' if c.get('atheris.skipped') else
                    {'executions': c.get('atheris.executions', 0), 'inputs_replayed': c.get('atheris.replayed', 0),
                     'failed_to_run': c.get('atheris.failed_to_run', 0)}),
        'skipped': ['tracemalloc peak (see assumptions)'] + (['atheris'] if c.get('atheris.skipped') else []),
    }


def floors(ctx):
    out = []
    c = ctx.counters
    need = ['family.trunc', 'family.bytesub', 'family.field1', 'family.field2', 'family.rec2', 'family.valid', 'open.ok',
            'open.ELFError', 'open.ELFError.identify', 'battery.runs', 'nontrivial.field1', 'nontrivial.field2',
            'nontrivial.rec2', 'nontrivial.trunc', 'nontrivial.bytesub']
    if c.get('random_cases', 0):
        need += ['family.random', 'family.random.ident', 'family.fieldN', 'nontrivial.fieldN']
    for k in need:
        if c.get(k, 0) == 0:
            out.append('no case with ' + k)
    # every battery step must have been attempted (whatever its outcome) on a four-digit number of inputs, and
    # corrupted inputs must have reached the enumeration loops (some step ended by raising)
    for step in Battery.STEPS:
        n = sum(v for k, v in c.items() if k.startswith('battery.step.%s.' % step))
        if n < 1000:
            out.append('battery step %s attempted on only %d inputs' % (step, n))
    if not any(k.endswith('.raised') and v for k, v in c.items() if k.startswith('battery.step.')):
        out.append('no battery step ever ended by raising')
    return out


# ---------------------------------------------------------------------------
# measurement of the battery's work on valid files (development aid; numbers quoted above)

def _measure():
    core.use_repo()
    ELFFile, ELFError = lib()
    rows = []
    for src in gen_seed_names() + ['file:' + p for p, sz in shipped_elfs()]:
        data = seed_bytes(src)
        st = CountingBytesIO(data)
        try:
            ef = ELFFile(st)
        except ELFError as e:
            print('%-70s does not open: %s' % (src, e))
            continue
        b = Battery(ef, st, len(data), limit=1 << 62)
        nsec, nseg = b.run()
        step, w = max(b.work.items(), key=lambda kv: kv[1][0])
        gstep, g = max(b.work.items(), key=lambda kv: kv[1][1])
        pstep, pk = max(b.work.items(), key=lambda kv: kv[1][2])
        den = max(len(data), SIZE_FLOOR)
        rows.append((w[0] / den, g[1] / den, pk[2] / den, src, len(data), nsec, nseg, step, w[0], gstep, g[1], pstep, pk[2],
                     sorted((s, sorted(n)) for s, n in b.excs.items())))
    rows.sort()
    for r in rows:
        print('%-66s len=%8d sec=%4d seg=%3d lines %-14s %7d (%.3f/B) read %-14s %8d (%.3f/B) peak %-14s %8d (%.3f/B) %s'
              % (r[3][-66:], r[4], r[5], r[6], r[7], r[8], r[0], r[9], r[10], r[1], r[11], r[12], r[2], r[13] or ''))
    print('per max(len,64K) byte: max line events %.3f, max bytes read %.3f, max single request %.3f'
          % (max(r[0] for r in rows), max(r[1] for r in rows), max(r[2] for r in rows)))


if __name__ == '__main__':
    if sys.argv[1:] == ['measure']:
        _measure()

"""C10 - answers do not depend on query history or stream position."""
import io
import os
import itertools

from hypothesis import strategies as st

from vf import core, dump, streams
from vf.enc import elf as W
from vf.enc import dwarf as D
from vf.choose import RndChooser

ID = 'C10'
RULE = ('histories = finite sequences over an operation alphabet on ONE opened file (ELFFile + its DWARFInfo): section/segment/symbol access, '
        'iter_CUs/get_CU_at/get_CU_containing/get_top_DIE/get_DIE_from_refaddr/iter_DIEs/iter_children/get_parent/iter_siblings/'
        'get_DIE_from_attribute/iter_TUs/get_DIE_by_sig8/line_program_for_CU+get_entries/CFI_entries+get_decoded/get_aranges/get_pubnames, '
        'plus adversarial pseudo-operations: reposition any underlying stream, create a suspended generator, advance a suspended generator. '
        'Oracle: the canonical result of every query equals the result of the same query on a freshly opened object that executed nothing else '
        '(memoised per file and query); generator items equal the corresponding slice of the fresh full iteration. (1) bounded-exhaustive: all '
        'sequences up to the depth bound on small generated files, expanding only sequences that reach a not-yet-expanded abstract cache state '
        '(hash of the private cache attributes, stream positions and suspended generators; read-only); (2) random long histories (Hypothesis '
        'lists of 30-300 operations) on generated and shipped files. Non-trivial: a history with >=1 reposition or suspended-generator step between '
        'two queries and >=3 distinct operation kinds. Distinct by SHA-1 of (fixture, operation sequence).')
N = {'quick': 900, 'thorough': 30000}
ASSUMPTIONS = ['exceptions are part of the canonical result: an operation that raises on a fresh object must raise the same exception type in any history',
               'private cache attributes are only read, to hash the abstract state for exploration bookkeeping',
               'generated fixtures are small (2-3 units, <= 30 DIEs); corpus fixtures are shipped test files opened read-only']

DEPTH = {'quick': 3, 'thorough': 4}

# ---------------------------------------------------------------------------
# fixtures

_fix = {}


def fixture(spec):
    spec = tuple(spec)
    if spec not in _fix:
        if spec[0] == 'gen':
            _fix[spec] = make_generated(spec[1], spec[2] if len(spec) > 2 else 'tree', dupsig=len(spec) > 3 and spec[3] == 'dupsig')
            if len(spec) > 3 and spec[3] == 'badver':
                _fix[spec] = make_badver(_fix[spec])
        else:
            with open(os.path.join(core.REPO, spec[1]), 'rb') as f:
                _fix[spec] = {'data': f.read()}
        _fix[spec]['truth'] = {}
        _fix[spec]['args'] = None
    return _fix[spec]


def shared_table_info(seed, le):
    """Units of different version, offset size and address size that all use ONE abbreviation table (DWARF 7.5.3 allows it; LTO and dwz
    output does it for units of equal parameters).  The declarations carry the forms whose width depends on the unit: ref_addr (address-
    sized in v2, offset-sized from v3), addr, strp, sec_offset-like data.  What a declaration means is then a function of (declaration,
    unit), and whatever the library remembers per declaration must not leak from one unit into the next."""
    tab = [{'code': 1, 'tag': 0x11, 'children': True, 'attrs': [[0x03, 'DW_FORM_string', None], [0x11, 'DW_FORM_addr', None]]},
           {'code': 2, 'tag': 0x24, 'children': False, 'attrs': [[0x03, 'DW_FORM_strp', None], [0x0b, 'DW_FORM_data1', None]]},
           {'code': 3, 'tag': 0x34, 'children': False, 'attrs': [[0x49, 'DW_FORM_ref_addr', None], [0x11, 'DW_FORM_addr', None], [0x03, 'DW_FORM_strp', None], [0x3a, 'DW_FORM_data2', None]]},
           {'code': 4, 'tag': 0x13, 'children': True, 'attrs': [[0x01, 'DW_FORM_ref4', None], [0x49, 'DW_FORM_ref_addr', None]]},
           {'code': 5, 'tag': 0x0d, 'children': False, 'attrs': [[0x49, 'DW_FORM_ref4', None], [0x03, 'DW_FORM_string', None]]}]
    params = [[(2, 32, 8), (4, 32, 8), (3, 64, 4)], [(4, 32, 8), (2, 32, 8), (2, 32, 4)], [(3, 64, 8), (2, 32, 8), (5, 32, 8)]][seed % 3]
    units = []
    for k, (ver, fmt, A) in enumerate(params):
        M = (1 << (8 * A)) - 1
        kids = [{'ab': 1, 'vals': [{'si': 0}, {'v': 4 + k}], 'kids': []},
                {'ab': 2, 'vals': [{'tu': k + 1, 't': 1}, {'v': 0x1000 * (k + 1) & M}, {'si': 0, 'skip': k}, {'v': 0x100 + k}], 'kids': []},
                {'ab': 3, 'vals': [{'sib': True}, {'tu': k + 2, 't': 2}], 'kids': [
                    {'ab': 4, 'vals': [{'t': 1}, {'s': b'm%d' % k}], 'kids': []},
                    {'ab': 2, 'vals': [{'tu': k, 't': 3}, {'v': M}, {'si': 0}, {'v': k}], 'kids': []}]},
                {'ab': 2, 'vals': [{'tu': 0, 't': 0}, {'v': 1}, {'si': 0, 'skip': 3}, {'v': 0xffff}], 'kids': []}]
        units.append({'version': ver, 'fmt': fmt, 'addr_size': A, 'ut': 1, 'abtab': 0, 'dwo_id': 0, 'sig': 0,
                      'die': {'ab': 0, 'vals': [{'s': b'unit%d' % k}, {'v': 0x400000 & M}], 'kids': kids}})
    return {'le': le, 'strs': [b'shared'], 'lstrs': [], 'abtabs': [tab], 'units': units, 'tunits': []}


def make_generated(seed, kind, dupsig=False):
    from vf.checks import c04, c05, c06
    ch = RndChooser(770000 + seed)
    le = bool(seed % 2)
    cls = (32, 64)[(seed // 2) % 2]
    if kind == 'tree':
        info = None
        for attempt in range(50):
            cand = c04.build(RndChooser(770000 + seed * 100 + attempt), 'quick')
            n = sum(_count(u['die']) for u in cand['units'])
            if 2 <= len(cand['units']) <= 3 and 6 <= n <= 30 and cand.get('tunits'):
                info = cand
                break
        if info is None:
            info = cand
        info['le'] = le
        if dupsig and len(info.get('tunits') or []) >= 2:
            # two type units with the same signature (tolerated input: readelf dumps such files, debuggers complain and go on)
            info['tunits'][-1]['sig'] = info['tunits'][0]['sig']
        payload = dict(D.InfoWriter(info).sections)
    elif kind == 'sharedab':
        payload = dict(D.InfoWriter(shared_table_info(seed, le)).sections)
    else:
        line = c05.build_case(ch, 'quick')
        line['le'] = le
        for p in line['progs']:
            p['ops'] = p['ops'][:40] + ([['end_sequence']] if p['ops'][:40] and p['ops'][:40][-1][0] != 'end_sequence' else [])
        payload, _ = c05.build_sections(line)
    fr = c06.build_case(RndChooser(880000 + seed), 'quick', kind='debug_frame' if seed % 3 else 'eh_frame')
    if seed % 2 == 1:
        # a frame section whose decoded tables share state if the library is careless: a CIE without initial rules and one
        # with rules, each with several FDEs that introduce different registers (decode order must not matter)
        fr = {'le': le, 'addr_size': cls // 8, 'kind': fr['kind'], 'sec_addr': 0x2000 if fr['kind'] == 'eh_frame' else 0, 'terminator': False, 'entries': []}
        aug = b'zR' if fr['kind'] == 'eh_frame' else b''
        cie0 = {'t': 'cie', 'fmt': 32, 'version': 1, 'aug': aug, 'caf': 1, 'daf': -4, 'rar': 16, 'pad': 0, 'fde_enc': 0x03, 'lsda_enc': 0, 'pers': [0, 0], 'ops': []}
        cie1 = dict(cie0, ops=[['def_cfa', 7, 8], ['offset', 16, 1]], version=3)
        fr['entries'] = [cie0, cie1]
        for j, (ci, regs) in enumerate(((0, [3]), (0, [6, 16]), (1, [5]), (0, [12, 3]), (1, [9, 6]))):
            ops = [['def_cfa', 7, 8 + j]]
            for r in regs:
                ops += [['advance_loc', 1 + j], ['offset', r, 2 + j]]
            fr['entries'].append({'t': 'fde', 'fmt': 32, 'cie': ci, 'loc': 0x3000 + 0x100 * j, 'range': 0x40, 'lsda': None, 'ops': ops, 'pad': j % 3})
    fr['le'] = le
    fr['addr_size'] = cls // 8
    for e in fr['entries']:
        e['ops'] = e['ops'][:12]
        if e['t'] == 'fde':
            e['loc'] &= 0x7fffffff
            e['range'] &= 0x7fffffff
            if e.get('lsda') is not None:
                e['lsda'] &= 0x7fffffff
    try:
        fdata, _ = c06.build_section(fr)
        payload['.eh_frame' if fr['kind'] == 'eh_frame' else '.debug_frame'] = fdata
    except Exception:  # noqa   (pointer no longer encodable after masking: do without a frame section)
        pass
    names = ['', 'main', 'helper', 'main', 'data_x', 'ünï']
    strtab, offs = W.build_strtab(names)
    syms = b''.join(W.enc_sym(cls, le, offs[n], 0x1000 + 16 * i, 8, 0x12 if i else 0, 0, 1 if i else 0) for i, n in enumerate(names))
    secs = [{'name': '', 'sh_type': 0}, {'name': '.text', 'sh_type': 1, 'sh_flags': 6, 'sh_addr': 0x1000, 'data': b'\x90' * 32},
            {'name': '.strtab', 'sh_type': 3, 'data': strtab}, {'name': '.symtab', 'sh_type': 2, 'sh_link': 2, 'sh_entsize': W.SYM_SIZE[cls], 'data': syms},
            {'name': '.note.x', 'sh_type': 7, 'data': W.enc_note(le, b'GNU\0', bytes(range(20)), 3) + W.enc_note(le, b'Ab\0', b'xyz', 77)}]
    for n, d in payload.items():
        if d is not None:
            secs.append({'name': n, 'sh_type': 1, 'sh_addr': 0x2000 if n == '.eh_frame' else 0, 'data': d})
    secs.append({'name': '.shstrtab', 'sh_type': 3, 'data': b''})
    data, _ = W.build({'cls': cls, 'le': le, 'e_type': 2, 'e_machine': 62, 'sections': secs, 'shstrndx': len(secs) - 1,
                       'segments': [{'p_type': 1, 'p_offset': ['sec_off', 1, 0], 'p_vaddr': 0x1000, 'p_filesz': 32, 'p_memsz': 32},
                                    {'p_type': 4, 'p_offset': ['sec_off', 4, 0], 'p_filesz': ['sec_size', 4, 0], 'p_memsz': ['sec_size', 4, 0]}]})
    return {'data': data}


def make_badver(fx):
    """The same file with the version of one unit (not the last) replaced by one the library does not support: every query that has to
    parse that unit raises, every other query must keep answering exactly as on a fresh object (error paths are part of a history).
    Valid arguments are discovered on the unpatched file."""
    o = Obj(fx['data'])
    cus = list(o.di.iter_CUs())
    cu = cus[max(0, len(cus) - 2)]
    sec = o.ef.get_section_by_name('.debug_info')
    pos = sec['sh_offset'] + cu.cu_offset + (12 if cu.structs.dwarf_format == 64 else 4)
    data = bytearray(fx['data'])
    data[pos:pos + 2] = (6).to_bytes(2, 'little' if o.ef.little_endian else 'big')
    return {'data': bytes(data), 'discover_data': fx['data'], 'bad_cu': cu.cu_offset}


def _count(d):
    return 1 + sum(_count(k) for k in d.get('kids', []))


# ---------------------------------------------------------------------------
# the object under test + operations

class Obj:
    def __init__(self, data, minimal=False):
        from elftools.elf.elffile import ELFFile
        # histories also run on a minimal read/seek/tell stream (seek() returns None); the fresh-object truth always comes from BytesIO
        self.ef = ELFFile(streams.Minimal(data) if minimal else io.BytesIO(data))
        # the DWARF view is made when the first query needs it: fetching it looks sections up by name, and a fresh object that has
        # already done so cannot serve as the truth for what a query answers on a file object nobody has touched yet (round 10)
        self._di = False
        self.gens = []          # suspended generators: [kind, arg, pos, iterator]
        self.kept = {}          # section objects a caller would keep around (their lazy caches are part of the history)

    @property
    def di(self):
        if self._di is False:
            self._di = self.ef.get_dwarf_info() if self.ef.has_dwarf_info() else None
        return self._di

    def section(self, i):
        if i not in self.kept:
            self.kept[i] = self.ef.get_section(i)
        return self.kept[i]

    def streams(self):
        out = [self.ef.stream]
        if self._di:
            for attr in ('debug_info_sec', 'debug_abbrev_sec', 'debug_str_sec', 'debug_line_sec', 'debug_frame_sec', 'eh_frame_sec', 'debug_types_sec'):
                s = getattr(self._di, attr)
                if s is not None:
                    out.append(s.stream)
        return out


def discover(fx):
    """valid arguments of this fixture, from a fresh object"""
    if fx['args'] is not None:
        return fx['args']
    o = Obj(fx.get('discover_data', fx['data']))
    a = {'nsec': o.ef.num_sections(), 'nseg': o.ef.num_segments(), 'cus': [], 'dies': [], 'refdies': [], 'sigs': [], 'names': [], 'nulls': []}
    a['names'] = [s.name for s in o.ef.iter_sections()][:12] + ['.absent']
    a['symtabs'] = [i for i, s in enumerate(o.ef.iter_sections()) if type(s).__name__ == 'SymbolTableSection']
    # .dynamic sections with the number of entries their extent holds (entries behind the first DT_NULL included)
    a['dynsecs'] = [(i, s['sh_size'] // s['sh_entsize']) for i, s in enumerate(o.ef.iter_sections())
                    if type(s).__name__ == 'DynamicSection' and s['sh_entsize'] and s['sh_size'] // s['sh_entsize']]
    a['symnames'] = []
    for i in a['symtabs'][:1]:
        a['symnames'] = sorted({s.name for s in o.ef.get_section(i).iter_symbols()})[:8] + ['nosuchsym']
        a['nsym'] = o.ef.get_section(i).num_symbols()
    if o.di is not None and o.di.debug_info_sec is not None:
        n = 0
        for cu in o.di.iter_CUs():
            a['cus'].append((cu.cu_offset, cu.size))
            for d in cu.iter_DIEs():
                if d.is_null():
                    # the null entries that iteration yields have offsets a caller may come back to, too
                    if len(a['nulls']) < 40:
                        a['nulls'].append(d.offset)
                    continue
                n += 1
                if n <= 400:
                    a['dies'].append(d.offset)
                    for name, at in d.attributes.items():
                        if at.form in ('DW_FORM_ref1', 'DW_FORM_ref2', 'DW_FORM_ref4', 'DW_FORM_ref8', 'DW_FORM_ref_udata', 'DW_FORM_ref_addr') and name != 'DW_AT_sibling':
                            a['refdies'].append((d.offset, str(name)))
            if n > 400:
                break
        if o.di.debug_types_sec is not None:
            a['sigs'] = [tu['signature'] for tu in o.di.iter_TUs()]
        a['info_size'] = o.di.debug_info_sec.size
    dyn = next((sg for sg in o.ef.iter_segments() if type(sg).__name__ == 'DynamicSegment'), None)
    a['has_dyn'] = dyn is not None
    if dyn is not None:
        try:
            a['dynnames'] = sorted({sy.name for sy in itertools.islice(dyn.iter_symbols(), 30)})[:8] + ['nosuchsym']
        except Exception:  # noqa
            a['dynnames'] = ['nosuchsym']
    a['loads'] = [sg['p_vaddr'] for sg in o.ef.iter_segments() if sg['p_type'] == 'PT_LOAD' and sg['p_filesz'] > 4][:6]
    a['notesecs'] = [i for i, s_ in enumerate(o.ef.iter_sections()) if type(s_).__name__ == 'NoteSection'][:4]
    a['loclists5'] = o.ef.get_section_by_name('.debug_loclists') is not None
    a['rnglists5'] = o.ef.get_section_by_name('.debug_rnglists') is not None
    a['nstreams'] = len(o.streams())
    fx['args'] = a
    return a


GEN_KINDS = ('iter_CUs', 'iter_DIEs', 'children', 'siblings', 'iter_sections', 'iter_symbols', 'iter_TUs', 'iter_segments', 'address_offsets',
             'iter_notes', 'dyn_iter_tags', 'dyn_iter_symbols', 'loclists_CUs', 'rnglists_CUs')


def make_gen(o, a, kind, arg):
    """-> iterator of canonical items"""
    if kind == 'iter_sections':
        return ((s.name, dump.canon(dict(s.header)), type(s).__name__) for s in o.ef.iter_sections())
    if kind == 'iter_symbols':
        sec = o.section(a['symtabs'][0])
        return ((s.name, dump.canon(s.entry)) for s in sec.iter_symbols())
    if kind == 'iter_segments':
        return ((dump.canon(dict(sg.header)), type(sg).__name__) for sg in o.ef.iter_segments())
    if kind == 'address_offsets':
        va = a['loads'][arg % len(a['loads'])]
        return iter(o.ef.address_offsets(va + arg % 3, 1))
    if kind == 'iter_notes':
        sec = o.section(a['notesecs'][arg % len(a['notesecs'])])
        return ((n['n_name'], n['n_type'], n['n_offset'], n['n_size']) for n in sec.iter_notes())
    if kind in ('dyn_iter_tags', 'dyn_iter_symbols'):
        if 'dyn' not in o.kept:
            o.kept['dyn'] = next((sg for sg in o.ef.iter_segments() if type(sg).__name__ == 'DynamicSegment'), None)
        dyn = o.kept['dyn']
        if kind == 'dyn_iter_tags':
            return ((t.entry.d_tag, t.entry.d_val) for t in dyn.iter_tags())
        return ((sy.name, dump.canon(sy.entry)) for sy in itertools.islice(dyn.iter_symbols(), 60))
    if kind in ('loclists_CUs', 'rnglists_CUs'):
        obj = o.di.location_lists() if kind == 'loclists_CUs' else o.di.range_lists()
        return ((h['cu_offset'], h['unit_length'], h['offset_count']) for h in obj.iter_CUs())
    if kind == 'iter_CUs':
        return (dump.cu_key(cu) for cu in o.di.iter_CUs())
    if kind == 'iter_TUs':
        return ((tu.tu_offset, dump.canon(dict(tu.header))) for tu in o.di.iter_TUs())
    if kind == 'iter_DIEs':
        off = a['cus'][arg % len(a['cus'])][0]
        return (dump.die_key(d) for d in o.di.get_CU_at(off).iter_DIEs())
    die = o.di.get_DIE_from_refaddr(a['dies'][arg % len(a['dies'])])
    if kind == 'children':
        return (dump.die_key(d) for d in die.iter_children())
    if kind == 'siblings':
        return (dump.die_key(d) for d in die.iter_siblings())
    raise ValueError(kind)


def gen_available(a, kind):
    if kind in ('iter_sections',):
        return True
    if kind == 'iter_segments':
        return a['nseg'] > 0
    if kind == 'address_offsets':
        return bool(a.get('loads'))
    if kind == 'iter_notes':
        return bool(a.get('notesecs'))
    if kind in ('dyn_iter_tags', 'dyn_iter_symbols'):
        return a.get('has_dyn', False)
    if kind == 'loclists_CUs':
        return a.get('loclists5', False)
    if kind == 'rnglists_CUs':
        return a.get('rnglists5', False)
    if kind == 'iter_symbols':
        return bool(a['symtabs'])
    if kind == 'iter_TUs':
        return bool(a['sigs'])
    if kind == 'iter_CUs':
        return bool(a['cus'])
    return bool(a['dies'])


ELF_ONLY_OPS = ('num_sections', 'get_section', 'get_section_typed', 'section_by_name', 'section_data', 'get_segment', 'notes', 'get_symbol',
                'symbol_by_name', 'dynsec_get_tag', 'dynsec_num_tags', 'dyn_tags', 'dyn_num_symbols', 'dyn_symbol_by_name', 'dyn_symbols',
                'bad_get_section', 'bad_get_segment', 'bad_get_symbol')


def apply(o, a, op):
    """execute one query op on object o -> canonical result (never raises)"""
    try:
        return ('ok', _apply(o, a, op))
    except (AssertionError, Exception) as e:  # noqa
        return ('exc', type(e).__name__)


def _apply(o, a, op):
    k = op[0]
    x = op[1] if len(op) > 1 else 0
    ef = o.ef
    di = None if k in ELF_ONLY_OPS else o.di
    if k == 'num_sections':
        return ef.num_sections()
    if k == 'get_section':
        s = ef.get_section(x % a['nsec'])
        return (s.name, dump.canon(dict(s.header)), type(s).__name__)
    if k == 'get_section_typed':
        # the optional type argument of get_section: the section when its type is among the given ones, the library's error otherwise -
        # whatever was asked before
        n = x % a['nsec']
        types = [('SHT_PROGBITS',), ('SHT_SYMTAB', 'SHT_DYNSYM'), ('SHT_NOBITS', 'SHT_NULL'), ('SHT_DYNAMIC',), ('SHT_STRTAB', 'SHT_NOTE', 'SHT_PROGBITS'),
                 ('SHT_RELA', 'SHT_REL'), ()][(x // 7) % 7]
        s = ef.get_section(n, types) if (x // 49) % 2 else ef.get_section(n, type=types)
        return (s.name, type(s).__name__)
    if k in ('dynsec_get_tag', 'dynsec_num_tags'):
        # a .dynamic section fetched from the file object for this one question (not a kept section object): single entries by number,
        # also those behind the first DT_NULL, and the count up to it
        i, cap = a['dynsecs'][x % len(a['dynsecs'])]
        sec = ef.get_section(i)
        if k == 'dynsec_num_tags':
            return sec.num_tags()
        t = sec.get_tag((x // 3) % cap)
        return (t.entry.d_tag, t.entry.d_val)
    if k == 'section_by_name':
        nm = a['names'][x % len(a['names'])]
        s = ef.get_section_by_name(nm)
        return None if s is None else (s.name, dump.canon(dict(s.header)), type(s).__name__, ef.get_section_index(nm), ef.has_section(nm))
    if k == 'section_data':
        s = ef.get_section(x % a['nsec'])
        return s.data()[:64]
    if k == 'get_segment':
        s = ef.get_segment(x % a['nseg'])
        return (dump.canon(dict(s.header)), type(s).__name__)
    if k == 'notes':
        out = []
        for s in ef.iter_sections():
            if type(s).__name__ == 'NoteSection':
                out += [(n['n_name'], n['n_type'], bytes(n['n_descdata']), n['n_offset'], n['n_size']) for n in s.iter_notes()]
        return tuple(out)
    if k == 'get_symbol':
        sec = o.section(a['symtabs'][0])
        s = sec.get_symbol(x % a['nsym'])
        return (s.name, dump.canon(s.entry))
    if k == 'symbol_by_name':
        sec = o.section(a['symtabs'][0])
        r = sec.get_symbol_by_name(a['symnames'][x % len(a['symnames'])])
        return None if r is None else tuple((s.name, dump.canon(s.entry)) for s in r)
    if k == 'get_CU_at':
        return dump.cu_key(di.get_CU_at(a['cus'][x % len(a['cus'])][0]))
    if k == 'get_CU_containing':
        off, size = a['cus'][x % len(a['cus'])]
        return dump.cu_key(di.get_CU_containing(off + (x * 7919) % size))
    if k == 'top_DIE':
        return dump.die_key(di.get_CU_at(a['cus'][x % len(a['cus'])][0]).get_top_DIE())
    if k == 'refaddr':
        return dump.die_key(di.get_DIE_from_refaddr(a['dies'][x % len(a['dies'])]))
    if k == 'parent':
        return dump.die_key(di.get_DIE_from_refaddr(a['dies'][x % len(a['dies'])]).get_parent())
    if k == 'null_refaddr':
        return dump.die_key(di.get_DIE_from_refaddr(a['nulls'][x % len(a['nulls'])]))
    if k == 'null_parent':
        return dump.die_key(di.get_DIE_from_refaddr(a['nulls'][x % len(a['nulls'])]).get_parent())
    if k == 'children_all':
        return tuple(dump.die_key(d) for d in di.get_DIE_from_refaddr(a['dies'][x % len(a['dies'])]).iter_children())
    if k == 'siblings_all':
        return tuple(dump.die_key(d) for d in di.get_DIE_from_refaddr(a['dies'][x % len(a['dies'])]).iter_siblings())
    if k == 'from_attribute':
        off, name = a['refdies'][x % len(a['refdies'])]
        d = di.get_DIE_from_refaddr(off)
        key = next(n for n in d.attributes if str(n) == name)
        return dump.die_key(d.get_DIE_from_attribute(key))
    if k == 'iter_DIEs_all':
        return tuple(dump.die_key(d) for d in di.get_CU_at(a['cus'][x % len(a['cus'])][0]).iter_DIEs())
    if k == 'iter_CUs_all':
        return tuple(dump.cu_key(cu) for cu in di.iter_CUs())
    if k == 'by_sig8':
        return dump.die_key(di.get_DIE_by_sig8(a['sigs'][x % len(a['sigs'])]))
    if k == 'iter_TUs_all':
        return tuple((tu.tu_offset, tuple(dump.die_key(d) for d in tu.iter_DIEs())) for tu in di.iter_TUs())
    if k == 'line_program':
        cu = di.get_CU_at(a['cus'][x % len(a['cus'])][0])
        return dump.line_program(di.line_program_for_CU(cu), cap=500)
    if k == 'cfi':
        return dump.cfi_entries(di.CFI_entries(), cap=60) if di.has_CFI() else None
    if k == 'eh_cfi':
        return dump.cfi_entries(di.EH_CFI_entries(), cap=60) if di.has_EH_CFI() else None
    if k == 'cfi_kept':
        if 'cfi' not in o.kept:
            o.kept['cfi'] = di.CFI_entries() if di.has_CFI() else (di.EH_CFI_entries() if di.has_EH_CFI() else [])
        ents = o.kept['cfi']
        if not ents:
            return None
        return dump.cfi_entries([ents[x % len(ents)]])
    if k in ('dyn_tags', 'dyn_num_symbols', 'dyn_symbol_by_name', 'dyn_symbols'):
        if 'dyn' not in o.kept:
            o.kept['dyn'] = next((sg for sg in ef.iter_segments() if type(sg).__name__ == 'DynamicSegment'), None)
        dyn = o.kept['dyn']
        if dyn is None:
            return None
        if k == 'dyn_tags':
            return tuple((t.entry.d_tag, t.entry.d_val, getattr(t, 'needed', None), getattr(t, 'soname', None)) for t in dyn.iter_tags())
        if k == 'dyn_num_symbols':
            return dyn.num_symbols()
        if k == 'dyn_symbols':
            return tuple((sy.name, dump.canon(sy.entry)) for sy in itertools.islice(dyn.iter_symbols(), 40))
        names = a.get('dynnames') or ['nosuch']
        r = dyn.get_symbol_by_name(names[x % len(names)])
        return None if r is None else tuple((sy.name, dump.canon(sy.entry)) for sy in r)
    if k in ('loclists_iter', 'rnglists_iter'):
        obj = di.location_lists() if k == 'loclists_iter' else di.range_lists()
        if obj is None:
            return None
        it = obj.iter_location_lists() if k == 'loclists_iter' else obj.iter_range_lists()
        out = []
        for lst in itertools.islice(it, 25):
            out.append(tuple((type(e).__name__,) + tuple(dump.canon(tuple(e))) for e in lst))
        return tuple(out)
    if k.startswith('bad_'):
        return _apply_bad(o, a, k, x)
    if k == 'aranges':
        ar = di.get_aranges()
        return None if ar is None else tuple(sorted(tuple(dump.canon(tuple(e))) for e in ar.entries))
    if k == 'pubnames':
        lut = di.get_pubnames()
        return None if lut is None else tuple((n, v.cu_ofs, v.die_ofs) for n, v in lut.items())
    raise ValueError(k)


BAD_OPS = ['bad_get_CU_at', 'bad_refaddr', 'bad_cu_refaddr', 'bad_by_sig8', 'bad_get_section', 'bad_get_segment', 'bad_get_symbol']


def _apply_bad(o, a, k, x):
    """queries with an argument that designates nothing (an offset inside an entry or inside a header, an index or signature that does not
    exist).  They are part of a history only where a fresh object REJECTS them (run_history asks the truth first): a rejected call must
    leave no trace - every later answer has to be what it would have been without it."""
    ef, di = o.ef, o.di
    if k == 'bad_get_CU_at':
        off, size = a['cus'][x % len(a['cus'])]
        cand = [off + 1, off + 2, off + size - 1, a['dies'][x % len(a['dies'])] if a['dies'] else off + 3, a.get('info_size', 0), a.get('info_size', 0) + 100, off + size // 2]
        t = cand[(x // 7) % len(cand)]
        if any(t == c[0] for c in a['cus']):
            t += 1
        return dump.cu_key(di.get_CU_at(t))
    if k == 'bad_refaddr':
        d = a['dies'][x % len(a['dies'])]
        cand = [d + 1, d + 2, a['cus'][x % len(a['cus'])][0] + 1, a.get('info_size', 0) + 7, a.get('info_size', 0)]
        return dump.die_key(di.get_DIE_from_refaddr(cand[(x // 5) % len(cand)]))
    if k == 'bad_cu_refaddr':
        off, size = a['cus'][x % len(a['cus'])]
        cu = di.get_CU_at(off)
        inside = [d for d in a['dies'] if off <= d < off + size]
        t = (inside[(x // 3) % len(inside)] + 1 + x % 2) if inside else off + size - 1
        return dump.die_key(cu.get_DIE_from_refaddr(t))
    if k == 'bad_by_sig8':
        sig = (0x0123456789abcdef + x) & ((1 << 64) - 1)
        if sig in a['sigs']:
            sig ^= 1
        return dump.die_key(di.get_DIE_by_sig8(sig))
    if k == 'bad_get_section':
        s = ef.get_section(a['nsec'] + x % 3)
        return (s.name, type(s).__name__)
    if k == 'bad_get_segment':
        s = ef.get_segment(a['nseg'] + x % 3)
        return (dump.canon(dict(s.header)), type(s).__name__)
    if k == 'bad_get_symbol':
        sec = o.section(a['symtabs'][0])
        s = sec.get_symbol(a['nsym'] + x % 3)
        return (s.name, dump.canon(s.entry))
    raise ValueError(k)


def op_available(a, op):
    k = op[0]
    if k in ('bad_get_CU_at', 'bad_refaddr', 'bad_cu_refaddr'):
        return bool(a['cus']) and bool(a['dies'])
    if k == 'bad_by_sig8':
        return bool(a['sigs'])
    if k in ('bad_get_section', 'bad_get_segment'):
        return True
    if k == 'bad_get_symbol':
        return bool(a['symtabs'])
    if k in ('num_sections', 'get_section', 'section_by_name', 'section_data', 'notes', 'get_section_typed'):
        return a['nsec'] > 0
    if k in ('dynsec_get_tag', 'dynsec_num_tags'):
        return bool(a.get('dynsecs'))
    if k == 'get_segment':
        return a['nseg'] > 0
    if k in ('get_symbol', 'symbol_by_name'):
        return bool(a['symtabs'])
    if k in ('get_CU_at', 'get_CU_containing', 'top_DIE', 'iter_DIEs_all', 'iter_CUs_all', 'line_program', 'cfi', 'eh_cfi', 'aranges', 'pubnames', 'loclists_iter', 'rnglists_iter'):
        return bool(a['cus'])
    if k in ('refaddr', 'parent', 'children_all', 'siblings_all'):
        return bool(a['dies'])
    if k in ('null_refaddr', 'null_parent'):
        return bool(a['nulls'])
    if k == 'from_attribute':
        return bool(a['refdies'])
    if k in ('by_sig8', 'iter_TUs_all'):
        return bool(a['sigs'])
    if k == 'cfi_kept':
        return bool(a['cus'])
    if k in ('dyn_tags', 'dyn_num_symbols', 'dyn_symbol_by_name', 'dyn_symbols'):
        return a.get('has_dyn', False)
    if k == 'repos':
        return True
    if k == 'gen_new':
        return gen_available(a, op[1])
    if k == 'gen_adv':
        return True
    return False


def truth(fx, a, op):
    key = repr(op)
    t = fx['truth']
    if key not in t:
        t[key] = apply(Obj(fx['data']), a, op)
    return t[key]


def gen_truth(fx, a, kind, arg):
    key = 'gen:%s:%r' % (kind, arg)
    t = fx['truth']
    if key not in t:
        o = Obj(fx['data'])
        items = []
        try:
            for it in make_gen(o, a, kind, arg):
                items.append(('ok', it))
                if len(items) > 3000:
                    break
        except Exception as e:  # noqa
            items.append(('exc', type(e).__name__))
        t[key] = items
    return t[key]


def run_history(ctx, fx, a, ops, case, o=None):
    """execute ops on one object, compare every result with the truth; -> (object, number of mismatches)"""
    if o is None:
        import zlib
        minimal = zlib.crc32(repr(ops).encode()) % 3 == 0
        o = Obj(fx['data'], minimal)
        if minimal:
            ctx.count('history.on-minimal-stream')
    bad = 0
    prev = 'start'
    # A file with a unit the library cannot decode: a query that, on a fresh object, has to walk across that unit raises, while the same
    # query may be answerable once a unit behind it is known.  Such queries have no history-independent answer to compare with; every
    # query that a fresh object answers must still be answered identically after any history, failed queries included.
    lenient = fx.get('bad_cu') is not None
    for op in ops:
        k = op[0]
        if not op_available(a, op):
            continue
        if k == 'repos':
            ss = o.streams()
            s = ss[op[1] % len(ss)]
            try:
                s.seek(0, 2)
                end = s.tell()
                s.seek((op[2] * 131) % (end + 1))
            except Exception:  # noqa
                pass
            prev = 'repos'
            continue
        if k == 'gen_new':
            try:
                it = make_gen(o, a, op[1], op[2])
            except Exception as e:  # noqa   (raised while creating the iterator: it is the first thing the consumer sees, as in gen_truth)
                it = _raiser(e)
            o.gens.append([op[1], op[2], 0, it, False])
            prev = 'gen_new'
            continue
        if k == 'gen_adv':
            if not o.gens:
                continue
            g = o.gens[op[1] % len(o.gens)]
            if g[4]:
                continue
            want = gen_truth(fx, a, g[0], g[1])
            ctx.count('gen.' + g[0])
            for _ in range(op[2] % 4 + 1):
                try:
                    got = ('ok', next(g[3]))
                except StopIteration:
                    got = ('stop',)
                    g[4] = True
                except Exception as e:  # noqa
                    got = ('exc', type(e).__name__)
                    g[4] = True
                exp = want[g[2]] if g[2] < len(want) else ('stop',)
                if lenient and exp[0] == 'exc':
                    g[4] = True
                    ctx.count('badver.undefined-skipped')
                    break
                if got != exp:
                    bad += 1
                    ctx.fail('history|suspended-generator|%s|%s' % (g[0], _kind(got, exp)),
                             'item %d of %s(%r) after %s: fresh iteration gives %s, this history %s' % (g[2], g[0], g[1], prev, _short(exp), _short(got)), case)
                    g[4] = True
                    break
                if got[0] != 'ok':
                    break
                g[2] += 1
            prev = 'gen_adv:' + g[0]
            continue
        if k.startswith('bad_'):
            if lenient or truth(fx, a, op)[0] != 'exc':
                # a fresh object answers (garbage in, garbage out): whatever such a call leaves behind is not covered by the property
                ctx.count('bad-argument.not-rejected-skipped')
                continue
            ctx.count('bad-argument.rejected-call-in-history')
        got = apply(o, a, op)
        exp = truth(fx, a, op)
        if k.startswith('bad_'):
            ctx.count('op.' + k)
        if lenient and exp[0] == 'exc':
            ctx.count('badver.undefined-skipped')
            prev = k
            continue
        if got != exp:
            bad += 1
            ctx.fail('history|op=%s|%s' % (k, _kind(got, exp)), 'op %r after %s: fresh object gives %s, this history %s' % (op, prev, _short(exp), _short(got)), case)
        # repeated identical query
        prev = k
    return o, bad


def _raiser(e):
    raise e
    yield


def _kind(got, exp):
    if got[0] != exp[0]:
        return '%s-instead-of-%s' % (got[0] if got[0] != 'exc' else 'raises=' + got[1], exp[0] if exp[0] != 'exc' else 'raises=' + exp[1])
    if got[0] == 'exc':
        return 'raises=%s-instead-of-%s' % (got[1], exp[1])
    return 'result-differs'


def _short(v):
    s = repr(v)
    return s if len(s) < 160 else s[:157] + '...'


def _coarse(x):
    if x is None or isinstance(x, (bool, int, str)):
        return x
    if isinstance(x, dict):
        return ('dict', tuple(sorted(repr(k) for k in x)))
    if isinstance(x, (list, tuple, set, frozenset)):
        return (type(x).__name__, len(x))
    return type(x).__name__


def _generic_state(obj):
    """shape of the private attributes of an object, whatever they are called (fallback of abstract_state)"""
    try:
        return tuple((k, _coarse(v)) for k, v in sorted(vars(obj).items()) if k.startswith('_'))
    except Exception:  # noqa
        return type(obj).__name__


def abstract_state(o):
    """hash input describing the cache state (read-only access to private attributes).  The attribute names are those of the pinned
    tree; on a tree that keeps its caches differently the description falls back to the shape of whatever private attributes exist - a
    coarser abstraction explores fewer states, it never changes a verdict."""
    ef, di = o.ef, (o._di or None)      # (looking at the state must not create the DWARF view)
    try:
        parts = [ef._section_name_map is None, ef.stream.tell()]
        if di is not None:
            parts.append(tuple(di._cu_offsets_map))
            for cu in di._cu_cache:
                parts.append((cu.cu_offset, tuple(cu._diemap), cu._abbrev_table is not None,
                              tuple((d.offset, d._parent.offset if d._parent is not None else None, d._terminator is not None) for d in cu._dielist)))
            parts.append(tuple(sorted(di._abbrevtable_cache)))
            parts.append(tuple(sorted(di._linetable_cache)))
            parts.append(di._type_units_by_sig is not None)
    except Exception:  # noqa
        parts = ['generic', _generic_state(ef), ef.stream.tell(), _generic_state(di) if di is not None else None]
    if di is not None:
        for s in o.streams()[1:]:
            parts.append(s.tell())
    parts.append(tuple((g[0], g[1], g[2], g[4]) for g in o.gens))
    parts.append(tuple(sorted((str(i), getattr(sec, '_symbol_name_map', 0) is None, getattr(sec, '_num_symbols', 0) is None) for i, sec in o.kept.items())))
    return core.digest(repr(parts))


# ---------------------------------------------------------------------------

def small_alphabet(a):
    """operation alphabet instantiated with the (few) valid arguments of a small fixture"""
    ops = []
    nd = len(a['dies'])
    ncu = len(a['cus'])
    if ncu:
        ops += [['iter_CUs_all'], ['get_CU_at', ncu - 1], ['get_CU_containing', ncu - 1], ['top_DIE', 0], ['top_DIE', ncu - 1],
                ['iter_DIEs_all', ncu - 1], ['cfi'], ['eh_cfi']]
    if nd:
        deep = nd - 1
        ops += [['refaddr', deep], ['refaddr', 1 % nd], ['parent', deep], ['parent', nd // 2], ['children_all', 0], ['children_all', nd // 2],
                ['siblings_all', nd // 2], ['siblings_all', deep]]
    if a['refdies']:
        ops += [['from_attribute', 0], ['from_attribute', len(a['refdies']) - 1]]
    if a['sigs']:
        ops += [['by_sig8', 0], ['iter_TUs_all'], ['gen_new', 'iter_TUs', 0]]
        if len(a['sigs']) > 1:
            ops += [['by_sig8', len(a['sigs']) - 1]]
    if a['nulls']:
        ops += [['null_parent', 0], ['null_parent', len(a['nulls']) - 1]]
    ops += [['section_by_name', 1], ['get_section', 3], ['symbol_by_name', 1], ['get_symbol', 2], ['notes'], ['cfi_kept', 1], ['cfi_kept', 2], ['cfi_kept', 3], ['cfi_kept', 0]]
    ops += [['repos', 1, 0], ['repos', 1, 3], ['repos', 0, 1], ['gen_new', 'iter_DIEs', 0], ['gen_new', 'children', 0], ['gen_new', 'iter_CUs', 0], ['gen_adv', 0, 0], ['gen_adv', 1, 1]]
    ops += [['bad_get_CU_at', 0], ['bad_get_CU_at', 21], ['bad_cu_refaddr', 0], ['bad_cu_refaddr', 4], ['bad_refaddr', 0], ['bad_by_sig8', 0]]
    if any(op[0] == 'line_program' for op in ops) is False and a.get('has_lines'):
        ops += [['line_program', 0]]
    return [op for op in ops if op_available(a, op)]


def bulk(ctx, tier, shard, nshards):
    """bounded-exhaustive exploration (every reachable abstract cache state x every operation)"""
    depth = DEPTH[tier]
    fixtures = [('gen', 1, 'tree'), ('gen', 2, 'tree'), ('gen', 3, 'tree'), ('gen', 4, 'lines'), ('gen', 1, 'sharedab'), ('gen', 2, 'sharedab')] if tier == 'thorough' else [('gen', 1, 'tree'), ('gen', 4, 'lines'), ('gen', 1, 'sharedab')]
    for fspec in fixtures:
        fx = fixture(fspec)
        a = discover(fx)
        if fspec[2] == 'lines':
            a['has_lines'] = True
        alpha = small_alphabet(a)
        if tier == 'quick':
            # every other duplicate-kind instantiation is left to the thorough tier
            keep, seenk = [], {}
            for op in alpha:
                seenk[op[0]] = seenk.get(op[0], 0) + 1
                if op[0] in ('bad_refaddr', 'bad_by_sig8'):
                    continue
                if seenk[op[0]] <= (1 if op[0] in ('top_DIE', 'refaddr', 'children_all', 'siblings_all', 'from_attribute', 'parent', 'bad_get_CU_at', 'bad_cu_refaddr') else 3):
                    keep.append(op)
            alpha = keep
        if fspec[2] == 'lines':
            alpha = [op for op in alpha if op[0] not in ('children_all', 'siblings_all')][:14] + [['line_program', 0], ['line_program', len(a['cus']) - 1]]
            alpha = [op for op in alpha if op_available(a, op)]
        # level-synchronous BFS; the first operation is sharded, deeper levels are explored inside the shard
        seen = set()
        frontier = [[op] for i, op in enumerate(alpha) if i % nshards == shard]
        states = transitions = 0
        for level in range(1, depth + 1):
            nxt = []
            for seq in frontier:
                case = {'fixture': list(fspec), 'ops': seq}
                o, bad = run_history(ctx, fx, a, seq, case)
                transitions += 1
                ctx.evaluations += 1
                nt = any(op[0] in ('repos', 'gen_new', 'gen_adv') for op in seq[:-1]) and len({op[0] for op in seq}) >= min(3, len(seq)) and len(seq) >= 3
                if nt:
                    ctx.counters['bulk_nontrivial'] += 1
                    if len(ctx.samples) < 2:
                        ctx.samples.append(core.to_jsonable(case))
                if bad or level == depth:
                    continue
                h = abstract_state(o)
                if h in seen:
                    continue
                seen.add(h)
                states += 1
                for op in alpha:
                    nxt.append(seq + [op])
            frontier = nxt
        ctx.count('exhaustive.states', states)
        ctx.count('exhaustive.transitions', transitions)
        ctx.count('exhaustive.alphabet.%s_%d' % (fspec[2], fspec[1]), len(alpha) if shard == 0 else 0)


def run_case(ctx, case):
    fx = fixture(case['fixture'])
    try:
        a = discover(fx)
    except Exception as e:  # noqa
        ctx.fail_exc('fixture|discover', e, case)
        return
    ops = case['ops']
    o, bad = run_history(ctx, fx, a, ops, case)
    kinds = [op[0] for op in ops if op_available(a, op)]
    adv = any(k in ('repos', 'gen_new', 'gen_adv') for k in kinds[1:-1]) if len(kinds) > 2 else False
    for k in set(kinds):
        ctx.count('op.' + k)
    ctx.count('fixture.%s' % case['fixture'][0])
    if len(case['fixture']) > 3:
        ctx.count('fixture.%s' % case['fixture'][3])
    ctx.case((case['fixture'], ops), adv and len(set(kinds)) >= 3, {'fixture': case['fixture'], 'n_ops': len(ops), 'first_ops': ops[:10]})


QUERY_OPS = ['num_sections', 'get_section', 'section_by_name', 'section_data', 'get_segment', 'notes', 'get_symbol', 'symbol_by_name', 'get_CU_at',
             'get_CU_containing', 'top_DIE', 'refaddr', 'parent', 'children_all', 'siblings_all', 'from_attribute', 'iter_DIEs_all', 'iter_CUs_all',
             'by_sig8', 'iter_TUs_all', 'line_program', 'cfi', 'eh_cfi', 'aranges', 'pubnames', 'cfi_kept', 'dyn_tags', 'dyn_num_symbols',
             'dyn_symbol_by_name', 'dyn_symbols', 'loclists_iter', 'rnglists_iter', 'null_refaddr', 'null_parent', 'get_section_typed',
             'dynsec_get_tag', 'dynsec_num_tags']

CORPUS = ['test/testfiles_for_unittests/lib_versioned64.so.1.elf', 'test/testfiles_for_unittests/dwarf_test_versions_mix.elf',
          'test/testfiles_for_unittests/simple_gcc.elf.arm', 'test/testfiles_for_readelf/dwarf_v5ops.so.elf',
          'test/testfiles_for_unittests/exe_simple64.elf', 'test/testfiles_for_unittests/arm_with_form_indirect.elf',
          'test/testfiles_for_readelf/dwarf_gnuops4.so.elf', 'test/testfiles_for_readelf/dwarf_debug_types.elf',
          'test/testfiles_for_unittests/dwarf_llpair.elf']


def corpus_fixtures():
    return [f for f in CORPUS if os.path.exists(os.path.join(core.REPO, f))]


def strategy(tier):
    fixtures = ([['gen', i, 'tree'] for i in range(1, 9)] + [['gen', i, 'lines'] for i in range(1, 5)] + [['gen', i, 'sharedab'] for i in (1, 2, 3)] + [['gen', i, 'tree', 'badver'] for i in (1, 5, 7)] + [['gen', i, 'tree', 'dupsig'] for i in (1, 2, 8)] +
                [['corpus', f] for f in corpus_fixtures()])
    query = st.builds(lambda k, x: [k, x], st.sampled_from(QUERY_OPS + BAD_OPS), st.integers(0, 500))
    repos = st.builds(lambda s, p: ['repos', s, p], st.integers(0, 7), st.integers(0, 100000))
    gnew = st.builds(lambda k, x: ['gen_new', k, x], st.sampled_from(GEN_KINDS), st.integers(0, 500))
    gadv = st.builds(lambda g, n: ['gen_adv', g, n], st.integers(0, 6), st.integers(0, 3))
    op = st.one_of(query, query, query, repos, gnew, gadv, gadv)
    return st.builds(lambda f, ops: {'fixture': f, 'ops': ops}, st.sampled_from(fixtures),
                     st.lists(op, min_size=30 if tier == 'quick' else 50, max_size=120 if tier == 'quick' else 300))


def sweep(tier):
    """deterministic long histories: every query op once in forward and once in reverse order, with a reposition between any two"""
    cases = []
    fixtures = [['gen', i, 'tree'] for i in range(1, 5)] + [['gen', i, 'sharedab'] for i in (1, 2, 3)] + [['gen', 1, 'lines'], ['gen', 1, 'tree', 'badver'], ['gen', 2, 'tree', 'badver'], ['gen', 1, 'tree', 'dupsig'], ['gen', 8, 'tree', 'dupsig']] + [['corpus', f] for f in corpus_fixtures()]
    for f in fixtures:
        for order in (1, -1):
            ops = []
            for i, k in enumerate(QUERY_OPS[::order]):
                ops.append([k, i * 37 + 1])
                ops.append(['repos', i, i * 977])
                if i % 4 == 0:
                    ops.append(['gen_new', GEN_KINDS[i % len(GEN_KINDS)], i])
                if i % 3 == 0:
                    ops.append(['gen_adv', i, i])
                ops.append([BAD_OPS[i % len(BAD_OPS)], 11 * i + order])
            ops += [[k, 5] for k in QUERY_OPS]
            cases.append({'fixture': f, 'ops': ops})
    return cases


def evidence_extra(ctx):
    return {'states': ctx.counters['exhaustive.states'], 'transitions': ctx.counters['exhaustive.transitions'],
            'exhaustive': True,
            'exhaustive_note': 'bounded-exhaustive part: all histories up to depth %d over the fixture alphabets, expanding each abstract cache state once; '
                               'bulk_nontrivial counts the distinct non-trivial sequences of that part (distinct by construction)' % DEPTH[ctx.tier]}


def floors(ctx):
    c = ctx.counters
    out = ['operation never exercised: ' + k for k in QUERY_OPS if c['op.' + k] == 0 and k not in ('aranges', 'pubnames')]
    if c['exhaustive.states'] < 50:
        out.append('exhaustive exploration reached only %d abstract states' % c['exhaustive.states'])
    out += ['suspended generator kind never advanced: ' + k for k in GEN_KINDS if c['gen.' + k] == 0]
    for k in ('fixture.gen', 'fixture.corpus', 'fixture.badver', 'fixture.dupsig', 'history.on-minimal-stream', 'bad-argument.rejected-call-in-history'):
        if c[k] == 0:
            out.append('no history on ' + k)
    return out

"""C07 - location and range lists decode to exactly the encoded entries."""
from vf import usage
from vf.enc import dwarf as D
from vf.enc.leb import uleb
from vf.choose import RndChooser, composite_from

ID = 'C07'
RULE = ('.debug_loc/.debug_ranges (v2-4 CUs) and .debug_loclists/.debug_rnglists (v5 CUs; 1-4 unit blocks, DWARF32/64, offset_count '
        '0..6, every DW_LLE/DW_RLE kind, indexed kinds backed by .debug_addr + DW_AT_addr_base, gaps and GNU location-view pairs in '
        'loclists) for address size 4/8 x byte order, referenced from generated DIEs through every list-capable form (data4/data8 in '
        'v2-3, sec_offset, loclistx, rnglistx) next to look-alike constant/expression attributes. Oracle = the model: fetch by '
        'attribute / offset / index, section enumeration (lists the DIEs reference, ordered by offset; v5 blocks with offset tables; all '
        'lists of a block), translate_v5_entry, and an attribute-class table written from DWARF v2-v5 (expression vs list vs neither). '
        'Non-trivial: a v5 section with offset_count>0 or >=2 blocks or an indexed entry kind; a v4 list with a base-selection entry; a '
        'list reached by index. Distinct by SHA-1 of all section bytes.')
N = {'quick': 2000, 'thorough': 100000}
ASSUMPTIONS = ['all CUs use the configured default address size (the list parsers take it from the DWARFInfo-wide structs); a v5 block has the DWARF format of the CU that references it',
               'v4 lists never contain a (0,0) pair before the terminator and never begin = max address except as base selection; v5 range-list blocks are contiguous (no gaps), v5 location lists are disjoint',
               'enumeration is compared as the set of lists by offset in ascending order (the API documents readelf-like rules)',
               'classification cells that DWARF v3 leaves ambiguous (DW_AT_data_member_location in data4/data8) are not asserted']

LLE = {'end_of_list': 0, 'base_addressx': 1, 'startx_endx': 2, 'startx_length': 3, 'offset_pair': 4, 'default_location': 5,
       'base_address': 6, 'start_end': 7, 'start_length': 8}
RLE = {'end_of_list': 0, 'base_addressx': 1, 'startx_endx': 2, 'startx_length': 3, 'offset_pair': 4, 'base_address': 5,
       'start_end': 6, 'start_length': 7}
AT_location, AT_ranges, AT_frame_base, AT_locviews = 0x02, 0x55, 0x40, 0x2137
AT_NAMES = {0x02: 'DW_AT_location', 0x55: 'DW_AT_ranges', 0x40: 'DW_AT_frame_base', 0x38: 'DW_AT_data_member_location', 0x2f: 'DW_AT_upper_bound',
            0x1c: 'DW_AT_const_value', 0x2a: 'DW_AT_return_addr', 0x19: 'DW_AT_string_length', 0x03: 'DW_AT_name', 0x3b: 'DW_AT_decl_line',
            0x37: 'DW_AT_count', 0x7e: 'DW_AT_call_value', 0x4d: 'DW_AT_vtable_elem_location', 0x48: 'DW_AT_static_link'}


def cld(expr):
    return uleb(len(expr)) + bytes(expr)


def enc_v4_loc(le, A, ents):
    out = bytearray()
    recs = []
    mx = (1 << (8 * A)) - 1
    for e in ents:
        o = len(out)
        if e[0] == 'base':
            out += D.u(le, A, mx) + D.u(le, A, e[1])
            recs.append(('base', o, 2 * A, e[1]))
        else:
            out += D.u(le, A, e[1]) + D.u(le, A, e[2]) + D.u(le, 2, len(e[3])) + bytes(e[3])
            recs.append(('loc', o, 2 * A + 2 + len(e[3]), e[1], e[2], list(e[3])))
    out += b'\0' * (2 * A)
    return bytes(out), recs


def enc_v4_rng(le, A, ents):
    out = bytearray()
    recs = []
    mx = (1 << (8 * A)) - 1
    for e in ents:
        o = len(out)
        if e[0] == 'base':
            out += D.u(le, A, mx) + D.u(le, A, e[1])
            recs.append(('base', o, 2 * A, e[1]))
        else:
            out += D.u(le, A, e[1]) + D.u(le, A, e[2])
            recs.append(('range', o, 2 * A, e[1], e[2]))
    out += b'\0' * (2 * A)
    return bytes(out), recs


def enc_v5_list(le, A, ents, loc, addrs):
    """-> bytes (incl. end_of_list), recs with resolved values: (kind, rel_offset, length, ...)"""
    out = bytearray()
    recs = []
    T = LLE if loc else RLE
    for e in ents:
        k = e[0]
        o = len(out)
        out.append(T[k])
        expr = bytes(e[-1]) if loc and k in ('startx_endx', 'startx_length', 'offset_pair', 'default_location', 'start_end', 'start_length') else None
        if k == 'base_addressx':
            out += uleb(e[1])
            vals = ('base', addrs[e[1]])
        elif k == 'startx_endx':
            out += uleb(e[1]) + uleb(e[2])
            vals = ('entry', addrs[e[1]], addrs[e[2]], True)
        elif k == 'startx_length':
            out += uleb(e[1]) + uleb(e[2])
            vals = ('entry', addrs[e[1]], addrs[e[1]] + e[2], True)
        elif k == 'offset_pair':
            out += uleb(e[1]) + uleb(e[2])
            vals = ('entry', e[1], e[2], False)
        elif k == 'default_location':
            vals = ('entry', -1, -1, True)
        elif k == 'base_address':
            out += D.u(le, A, e[1])
            vals = ('base', e[1])
        elif k == 'start_end':
            out += D.u(le, A, e[1]) + D.u(le, A, e[2])
            vals = ('entry', e[1], e[2], True)
        elif k == 'start_length':
            out += D.u(le, A, e[1]) + uleb(e[2])
            vals = ('entry', e[1], e[1] + e[2], True)
        else:
            raise ValueError(k)
        if expr is not None:
            out += cld(expr)
        recs.append({'kind': k, 'off': o, 'len': len(out) - o, 'vals': vals, 'expr': None if expr is None else list(expr)})
    out.append(0)
    return bytes(out), recs


def build(case):
    """-> (sections, exp).  exp describes every list with absolute offsets."""
    le, A = case['le'], case['addr_size']
    secs = {}
    exp = {'loc4': [], 'rng4': [], 'blocks': {'loc': [], 'rng': []}, 'cus': []}
    # --- v4 sections
    for key, name, enc in (('loc4', '.debug_loc', enc_v4_loc), ('rng4', '.debug_ranges', enc_v4_rng)):
        lists = case.get(key)
        if lists is None:
            continue
        out = bytearray(b'\xaa' * case.get(key + '_lead', 0) * 0)
        for L in lists:
            views = L.get('views') or []
            voff = len(out)
            for (b, e) in views:
                out += uleb(b) + uleb(e)
            off = len(out)
            data, recs = enc(le, A, L['ents'])
            out += data
            exp[key].append({'off': off, 'voff': voff if views else None, 'views': views, 'recs': recs, 'end': len(out)})
        secs[name] = bytes(out)
    # --- v5 sections
    addr_tables = case.get('addr_tables', [])
    for key, name in (('loc', '.debug_loclists'), ('rng', '.debug_rnglists')):
        blocks = case.get(key + '5')
        if blocks is None:
            continue
        out = bytearray()
        for B in blocks:
            fmt = B['fmt']
            O = 4 if fmt == 32 else 8
            addrs = addr_tables[B['addr_table']] if B.get('addr_table') is not None else []
            body = bytearray()
            lists = []
            for L in B['lists']:
                body += b'\xee' * L.get('gap', 0)
                views = L.get('views') or []
                voff = len(body)
                for (b, e) in views:
                    body += uleb(b) + uleb(e)
                off = len(body)
                data, recs = enc_v5_list(le, A, L['ents'], key == 'loc', addrs)
                body += data
                lists.append({'rel': off, 'vrel': voff if views else None, 'views': views, 'recs': recs, 'rend': len(body), 'ents': L['ents']})
            body += b'\xee' * B.get('tail_gap', 0)
            noff = B['offset_count']
            table_size = noff * O
            hdr_rest = D.u(le, 2, 5) + bytes([A, 0]) + D.u(le, 4, noff)
            unit_length = len(hdr_rest) + table_size + len(body)
            cu_offset = len(out)
            out += D.initial_length(le, fmt, unit_length) + hdr_rest
            table_off = len(out)
            # offsets are relative to the first offset entry (DWARF v5 7.28/7.29)
            offs = [table_size + lists[i % len(lists)]['rel'] for i in range(noff)] if lists else [0] * noff
            for o in offs:
                out += D.u(le, O, o)
            base = len(out)
            out += body
            for L in lists:
                L['off'] = base + L['rel']
                L['voff'] = None if L['vrel'] is None else base + L['vrel']
                L['end'] = base + L['rend']
            exp['blocks'][key].append({'cu_offset': cu_offset, 'unit_length': unit_length, 'is64': fmt == 64, 'offset_after_length': cu_offset + (4 if fmt == 32 else 12),
                                       'version': 5, 'address_size': A, 'segment_selector_size': 0, 'offset_count': noff, 'offset_table_offset': table_off,
                                       'offsets': offs, 'lists': lists, 'fmt': fmt, 'end': len(out)})
        secs[name] = bytes(out)
    # --- .debug_addr
    if addr_tables:
        ad = bytearray()
        bases = []
        for t in addr_tables:
            body = b''.join(D.u(le, A, a) for a in t)
            hdr = D.initial_length(le, 32, 4 + len(body)) + D.u(le, 2, 5) + bytes([A, 0])
            bases.append(len(ad) + len(hdr))
            ad += hdr + body
        secs['.debug_addr'] = bytes(ad)
        exp['addr_bases'] = bases
    # --- CUs
    units, abtabs = [], []
    for cu in case['cus']:
        ver, fmt = cu['version'], cu['fmt']
        v5 = ver >= 5
        root_attrs = [[0x03, 'DW_FORM_string', None]]
        root_vals = [{'s': b'cu'}]
        if v5:
            if cu.get('addr_table') is not None:
                root_attrs.append([0x73, 'DW_FORM_sec_offset', None])
                root_vals.append({'v': exp['addr_bases'][cu['addr_table']]})
            for key, at in (('loc', 0x8c), ('rng', 0x74)):
                if cu.get(key + '_block') is not None:
                    root_attrs.append([at, 'DW_FORM_sec_offset', None])
                    root_vals.append({'v': exp['blocks'][key][cu[key + '_block']]['offset_table_offset']})
        elif cu.get('gnu_bases'):
            # a GNU Fission skeleton unit (pre-v5): DW_AT_GNU_ranges_base / DW_AT_GNU_addr_base describe the lists and addresses of the
            # split (.dwo) unit; a DW_AT_ranges / DW_AT_location of this unit itself stays a plain section offset
            bform = 'DW_FORM_sec_offset' if ver >= 4 else ('DW_FORM_data4' if fmt == 32 else 'DW_FORM_data8')
            for at, v in zip((0x2132, 0x2133), cu['gnu_bases']):
                if v is not None:
                    root_attrs.append([at, bform, None])
                    root_vals.append({'v': v})
            root_attrs.append([0x2130, 'DW_FORM_string', None])
            root_vals.append({'s': b'x.dwo'})
        tab = [{'code': 1, 'tag': 0x11, 'children': True, 'attrs': root_attrs}]
        kids = []
        xcu = {'version': ver, 'fmt': fmt, 'dies': []}
        for d in cu['dies']:
            attrs, vals, xattrs = [], [], []
            for a in d:
                at, form, ref = a['at'], a['form'], a.get('ref')
                spec = a.get('spec')
                info = {'at': at, 'form': form, 'kind': a['kind']}
                if a['kind'] in ('loclist', 'rnglist', 'views'):
                    sect = ('loc' if a['kind'] != 'rnglist' else 'rng')
                    if v5:
                        blk = exp['blocks'][sect][cu[sect + '_block']]
                        if form in ('DW_FORM_loclistx', 'DW_FORM_rnglistx'):
                            idx = ref % max(blk['offset_count'], 1)
                            spec = {'i': idx}
                            tgt = blk['lists'][idx % len(blk['lists'])]
                            info.update(index=idx)
                        else:
                            tgt = blk['lists'][ref % len(blk['lists'])]
                            off = tgt['off']
                            skip = a.get('tail', 0)
                            if skip and len(tgt['recs']) > 1 and a['kind'] != 'views' and not tgt['views']:
                                # shared tail: this attribute designates a later entry of a list that another attribute designates from its start
                                k = skip % len(tgt['recs'])
                                off = tgt['off'] + tgt['recs'][k]['off']
                                info['tail_from'] = k
                            spec = {'v': tgt['voff'] if a['kind'] == 'views' else off}
                    else:
                        lst = exp['loc4' if sect == 'loc' else 'rng4']
                        tgt = lst[ref % len(lst)]
                        skip = a.get('tail', 0)
                        off = tgt['off']
                        if skip and len(tgt['recs']) > 1:
                            # shared tail: point into the middle of the list
                            k = skip % len(tgt['recs'])
                            off = tgt['off'] + tgt['recs'][k][1]
                            info['tail_from'] = k
                        spec = {'v': tgt['voff'] if a['kind'] == 'views' else off}
                        info['abs_off'] = spec['v']
                    info['target'] = tgt
                if a.get('indirect'):
                    # the abbreviation declares DW_FORM_indirect, the entry itself names the form (a chain of 1 or 2 indirections)
                    attrs.append([at, 'DW_FORM_indirect', None])
                    vals.append({'chain': a['indirect'], 'form': form, 'val': spec})
                else:
                    attrs.append([at, form, None])
                    vals.append(spec)
                xattrs.append(info)
            tab.append({'code': len(tab) + 1, 'tag': 0x34, 'children': False, 'attrs': attrs})
            kids.append({'ab': len(tab) - 1, 'vals': vals, 'kids': []})
            xcu['dies'].append(xattrs)
        ctx_ut = cu.get('ut', 1) if v5 else 1
        un = {'version': ver, 'fmt': fmt, 'addr_size': A, 'ut': ctx_ut, 'abtab': len(abtabs), 'dwo_id': cu.get('sig', 0), 'sig': cu.get('sig', 0), 'type_die': 0,
              'die': {'ab': 0, 'vals': root_vals, 'kids': kids}}
        units.append(un)
        abtabs.append(tab)
        exp['cus'].append(xcu)
    w = _Writer({'le': le, 'strs': [], 'lstrs': [], 'abtabs': abtabs, 'units': units, 'tunits': []}, exp)
    secs.update({k: v for k, v in w.sections.items() if k in ('.debug_info', '.debug_abbrev')})
    exp['units'] = w.exp['units']
    return secs, exp


class _Writer(D.InfoWriter):
    """InfoWriter whose loclistx/rnglistx resolved values come from this module's own block tables."""
    def __init__(self, case, exp):
        self._c7exp = exp
        super().__init__(case)

    def _aux_sections(self):
        for unit in self.case['units']:
            unit['aux_resolved'] = {'loclistx_vals': _LazyVals(), 'rnglistx_vals': _LazyVals(), 'strx_vals': [], 'addrx_vals': []}


class _LazyVals:
    def __getitem__(self, i):
        return ('index', i)     # the check computes the expected resolved offset itself


# ---------------------------------------------------------------------------

def want_entries(L, v5, loc, skip=0):
    out = []
    if not v5:
        base0 = L['off']
        for r in L['recs'][skip:]:
            if r[0] == 'base':
                out.append(('base', base0 + r[1], r[2], r[3]))
            elif r[0] == 'loc':
                out.append(('loc', base0 + r[1], r[2], r[3], r[4], r[5], False))
            else:
                out.append(('range', base0 + r[1], r[2], r[3], r[4], False))
        return out
    for r in L['recs'][skip:]:
        o = L['off'] + r['off']
        if r['vals'][0] == 'base':
            out.append(('base', o, r['len'], r['vals'][1]))
        elif loc:
            out.append(('loc', o, r['len'], r['vals'][1], r['vals'][2], r['expr'], r['vals'][3]))
        else:
            out.append(('range', o, r['len'], r['vals'][1], r['vals'][2], r['vals'][3]))
    return out


def got_entries(lst, loc):
    out = []
    for e in lst:
        n = type(e).__name__
        if n == 'BaseAddressEntry':
            out.append(('base', e.entry_offset, getattr(e, 'entry_length', None), e.base_address))
        elif n == 'LocationEntry':
            out.append(('loc', e.entry_offset, e.entry_length, e.begin_offset, e.end_offset, list(e.loc_expr), bool(e.is_absolute)))
        elif n == 'RangeEntry':
            out.append(('range', e.entry_offset, e.entry_length, e.begin_offset, e.end_offset, bool(e.is_absolute)))
        elif n == 'LocationViewPair':
            out.append(('view', e.entry_offset, e.begin, e.end))
        else:
            out.append(('?', repr(e)))
    return out


def cmp_list(ctx, what, got, want, case, kinds=''):
    # range BaseAddressEntry has no entry_length
    g2 = [(x[0], x[1], x[3]) if x[0] == 'base' and x[2] is None else x for x in got]
    w2 = [(x[0], x[1], x[3]) if x[0] == 'base' and any(y[0] == 'base' and y[2] is None for y in got) else x for x in want]
    if g2 == w2:
        return True
    k = next((i for i, (a, b) in enumerate(zip(g2, w2)) if a != b), min(len(g2), len(w2)))
    field = ''
    if k < len(g2) and k < len(w2) and g2[k][0] == w2[k][0] and len(g2[k]) == len(w2[k]):
        names = {'loc': ('kind', 'entry_offset', 'entry_length', 'begin', 'end', 'expr', 'is_absolute'),
                 'range': ('kind', 'entry_offset', 'entry_length', 'begin', 'end', 'is_absolute'), 'base': ('kind', 'entry_offset', 'entry_length', 'base_address'),
                 'view': ('kind', 'entry_offset', 'begin', 'end')}.get(g2[k][0], ())
        j = next((j for j, (a, b) in enumerate(zip(g2[k], w2[k])) if a != b), 0)
        field = names[j] if j < len(names) else str(j)
    else:
        field = 'count' if k >= min(len(g2), len(w2)) else 'kind'
    ctx.fail('%s|%s%s' % (what, field, kinds), 'entry %d: expected %r got %r (of %d/%d entries)' % (
        k, w2[k] if k < len(w2) else None, g2[k] if k < len(g2) else None, len(w2), len(g2)), case)
    return False


def classify_expect(at, form, ver):
    """-> 'expr' | 'list' | 'none' | None (not asserted).  Written from the attribute-class tables of DWARF v2-v5
    (v5 table 7.5/7.6; v4 7.5.4; v3 7.5.4; v2 7.5.4)."""
    name = AT_NAMES[at]
    loc_attrs = ('DW_AT_location', 'DW_AT_frame_base', 'DW_AT_return_addr', 'DW_AT_string_length', 'DW_AT_data_member_location',
                 'DW_AT_vtable_elem_location', 'DW_AT_static_link')
    block = form.startswith('DW_FORM_block')
    small_const = form in ('DW_FORM_data1', 'DW_FORM_data2', 'DW_FORM_sdata', 'DW_FORM_udata')
    if name in ('DW_AT_name', 'DW_AT_decl_line'):
        return 'none'
    if name == 'DW_AT_ranges':
        return 'none'          # rangelistptr is not a location class
    if name in loc_attrs:
        if form == 'DW_FORM_exprloc':
            return 'expr'
        if block:
            return 'expr' if ver < 4 else 'none'
        if form in ('DW_FORM_sec_offset', 'DW_FORM_loclistx'):
            return 'list'
        if form in ('DW_FORM_data4', 'DW_FORM_data8'):
            if name == 'DW_AT_data_member_location' and ver >= 3:
                return None if ver == 3 else 'none'
            return 'list' if ver < 4 else 'none'
        if small_const:
            return 'none' if ver >= 4 or form in ('DW_FORM_sdata', 'DW_FORM_udata') else None
        return None
    if name in ('DW_AT_upper_bound', 'DW_AT_count'):
        if form == 'DW_FORM_exprloc':
            return 'expr'
        if block:
            return 'expr' if ver < 4 else None
        if small_const or form in ('DW_FORM_data4', 'DW_FORM_data8'):
            return 'none'
        return None
    if name == 'DW_AT_const_value':
        if block or small_const or form in ('DW_FORM_data4', 'DW_FORM_data8', 'DW_FORM_string'):
            return 'none'
        return None
    if name == 'DW_AT_call_value':
        return 'expr' if form == 'DW_FORM_exprloc' else None
    return None


def run_case(ctx, case):
    from elftools.dwarf.locationlists import LocationParser
    le, A = case['le'], case['addr_size']
    secs, exp = build(case)
    try:
        di = D.make_dwarfinfo(secs, le, case.get('file_addr_size', A))
        cus = list(di.iter_CUs())
        if case.get('file_addr_size', A) != A:
            ctx.count('unit-address-size-differs-from-file')
    except Exception as e:  # noqa
        ctx.fail_exc('open', e, case)
        return
    nt = False
    try:
        ll = di.location_lists()
        rl = di.range_lists()
    except Exception as e:  # noqa
        ctx.fail_exc('lists-object', e, case)
        return
    lp = LocationParser(ll) if ll is not None else None
    both_loc = '.debug_loc' in secs and '.debug_loclists' in secs
    both_rng = '.debug_ranges' in secs and '.debug_rnglists' in secs
    referenced = {'loc': {False: {}, True: {}}, 'rng': {False: {}, True: {}}}
    for cu, xcu in zip(cus, exp['cus']):
        ver = xcu['version']
        v5 = ver >= 5
        try:
            dies = [d for d in cu.iter_DIEs() if not d.is_null()][1:]
        except Exception as e:  # noqa
            ctx.fail_exc('iter_DIEs', e, case)
            continue
        for die, xattrs in zip(dies, xcu['dies']):
            has_views = any(x['kind'] == 'views' for x in xattrs)
            for (name, attr), x in zip(list(die.attributes.items()), xattrs):
                # classification
                want_cls = classify_expect(x['at'], x['form'], ver) if x['kind'] != 'views' else None
                if want_cls is not None:
                    try:
                        has = LocationParser.attribute_has_location(attr, ver)
                        is_expr = LocationParser._attribute_has_loc_expr(attr, ver)
                        got_cls = 'none' if not has else ('expr' if is_expr else 'list')
                    except Exception as e:  # noqa
                        ctx.fail_exc('classify', e, case)
                        got_cls = want_cls
                    if got_cls != want_cls:
                        ctx.fail('classify|%s|%s|v%s|want=%s|got=%s' % (AT_NAMES[x['at']], x['form'], ver if ver < 4 else '4+' if ver == 4 else 5, want_cls, got_cls),
                                 'attribute %s form %s in a version %d unit' % (AT_NAMES[x['at']], x['form'], ver), case)
                    ctx.count('classify.%s' % want_cls)
                if x['kind'] == 'loclist':
                    tgt = x['target']
                    skip = x.get('tail_from', 0)
                    want = want_entries(tgt, v5, True, skip)
                    off = tgt['off'] + ((tgt['recs'][skip]['off'] if v5 else tgt['recs'][skip][1]) if skip else 0)
                    if v5 and 'index' in x:
                        nt = True
                        ctx.count('fetch.loclistx')
                        if attr.value != off:
                            ctx.fail('loclistx|resolved-offset|fmt=%d' % xcu['fmt'], 'index %d: expected offset %d got %r' % (x['index'], off, attr.value), case)
                            continue
                    elif attr.value != off:
                        ctx.fail('attr-offset', 'expected %d got %r' % (off, attr.value), case)
                        continue
                    kinds = {r['kind'] for r in tgt['recs']} if v5 else {r[0] for r in tgt['recs']}
                    if (not v5 and 'base' in kinds) or (v5 and kinds & {'base_addressx', 'startx_endx', 'startx_length'}):
                        nt = True
                    for via in ('offset', 'attribute'):
                        try:
                            if via == 'offset':
                                got = ll.get_location_list_at_offset(off, die)
                            else:
                                got = lp.parse_from_attribute(attr, ver, die)
                            cmp_list(ctx, 'loclist|v%d|fetch-by-%s' % (5 if v5 else 4, via), got_entries(got, True), want, case)
                        except Exception as e:  # noqa
                            ctx.fail_exc('loclist|v%d|fetch-by-%s' % (5 if v5 else 4, via), e, case)
                    ctx.count('fetch.loclist.v%d' % (5 if v5 else 4))
                    if not (has_views and x['at'] == AT_location):
                        referenced['loc'][v5][off] = ([], want)
                    else:
                        v = next(y for y in xattrs if y['kind'] == 'views')
                        vt = v['target']
                        referenced['loc'][v5][vt['voff']] = ([('view', vt['voff'] + _vo(vt, i), b, e) for i, (b, e) in enumerate(vt['views'])], want)
                elif x['kind'] == 'rnglist':
                    tgt = x['target']
                    skip = x.get('tail_from', 0)
                    want = want_entries(tgt, v5, False, skip)
                    off = tgt['off'] + ((tgt['recs'][skip]['off'] if v5 else tgt['recs'][skip][1]) if skip else 0)
                    if v5 and 'index' in x:
                        nt = True
                        ctx.count('fetch.rnglistx')
                        if attr.value != off:
                            ctx.fail('rnglistx|resolved-offset|fmt=%d' % xcu['fmt'], 'index %d: expected offset %d got %r' % (x['index'], off, attr.value), case)
                            continue
                    elif attr.value != off:
                        ctx.fail('attr-offset', 'expected %d got %r' % (off, attr.value), case)
                        continue
                    kinds = {r['kind'] for r in tgt['recs']} if v5 else {r[0] for r in tgt['recs']}
                    if (not v5 and 'base' in kinds) or (v5 and kinds & {'base_addressx', 'startx_endx', 'startx_length'}):
                        nt = True
                    try:
                        got = rl.get_range_list_at_offset(off, cu)
                        cmp_list(ctx, 'rnglist|v%d|fetch-by-offset' % (5 if v5 else 4), got_entries(got, False), want, case)
                    except Exception as e:  # noqa
                        ctx.fail_exc('rnglist|v%d|fetch-by-offset' % (5 if v5 else 4), e, case)
                    if v5:
                        try:
                            raw = rl.get_range_list_at_offset_ex(off)
                            got2 = [rl.translate_v5_entry(r, cu) for r in raw]
                            cmp_list(ctx, 'rnglist|v5|translate_v5_entry', got_entries(got2, False), want, case)
                        except Exception as e:  # noqa
                            ctx.fail_exc('rnglist|v5|translate_v5_entry', e, case)
                    ctx.count('fetch.rnglist.v%d' % (5 if v5 else 4))
                    referenced['rng'][v5][off] = ([], want)
    # --- enumeration
    enum_objs = []
    for sect, both, obj in (('loc', both_loc, ll), ('rng', both_rng, rl)):
        if obj is None:
            continue
        if both:
            # a file with both generations of a section: the pair object does not enumerate; each section is enumerated through an
            # object for that section alone, made with the public constructor (what a dumper of such a file does)
            ctx.count('pair.' + sect)
            try:
                if sect == 'rng':
                    from elftools.dwarf.ranges import RangeLists
                    enum_objs.append((sect, False, RangeLists(di.debug_ranges_sec.stream, di.structs, 4, di)))
                    enum_objs.append((sect, True, RangeLists(di.debug_rnglists_sec.stream, di.structs, 5, di)))
                else:
                    from elftools.dwarf.locationlists import LocationLists
                    enum_objs.append((sect, False, LocationLists(di.debug_loc_sec.stream, di.structs, 4, di)))
                    enum_objs.append((sect, True, LocationLists(di.debug_loclists_sec.stream, di.structs, 5, di)))
            except Exception as e:  # noqa
                ctx.fail_exc('enumerate|%s|pair-halves' % sect, e, case)
        else:
            enum_objs.append((sect, ('.debug_loclists' if sect == 'loc' else '.debug_rnglists') in secs, obj))
    for sect, v5, obj in enum_objs:
        both = both_loc if sect == 'loc' else both_rng
        refs = referenced[sect][v5]
        want_seq = [refs[o][0] + refs[o][1] for o in sorted(refs)]
        if both:
            ctx.count('enumerate.pair-half.%s.v%d' % (sect, 5 if v5 else 4))
        try:
            got_seq = [got_entries(l, sect == 'loc') for l in (obj.iter_location_lists() if sect == 'loc' else obj.iter_range_lists())]
            if len(got_seq) != len(want_seq):
                tail = ''
                if v5 and sect == 'loc':
                    tail = '|trailing-padding' if any(b['lists'] and b['end'] > b['lists'][-1]['end'] for b in exp['blocks']['loc']) else ''
                ctx.fail('enumerate|%s|v%d|count%s' % (sect, 5 if v5 else 4, tail), 'DIEs reference %d lists, enumeration yields %d' % (len(want_seq), len(got_seq)), case)
            else:
                for g, wnt in zip(got_seq, want_seq):
                    if not cmp_list(ctx, 'enumerate|%s|v%d' % (sect, 5 if v5 else 4), g, wnt, case):
                        break
            ctx.count('enumerate.%s.v%d' % (sect, 5 if v5 else 4))
            # the same enumeration consumed step by step while the consumer fetches other lists / moves the stream between two steps
            if len(got_seq) == len(want_seq):
                stream = getattr(di, {('loc', True): 'debug_loclists_sec', ('loc', False): 'debug_loc_sec', ('rng', True): 'debug_rnglists_sec', ('rng', False): 'debug_ranges_sec'}[(sect, v5)]).stream
                mk = obj.iter_location_lists if sect == 'loc' else obj.iter_range_lists
                try:
                    stepped = [got_entries(l, sect == 'loc') for l in usage.stepwise(mk, usage.disturber(stream))]
                    if stepped != got_seq:
                        ctx.fail('enumerate|%s|v%d|interleaved-with-other-stream-use' % (sect, 5 if v5 else 4), 'a plain loop yields %d lists; with the stream moved between two steps %d (or different ones)' % (
                            len(got_seq), len(stepped)), case)
                except Exception as e:  # noqa
                    ctx.fail('enumerate|%s|v%d|interleaved-with-other-stream-use' % (sect, 5 if v5 else 4), 'a plain loop yields %d lists; with the stream moved between two steps the enumeration raises %s: %s' % (
                        len(got_seq), type(e).__name__, str(e)[:100]), case)
                if len(got_seq) >= 2:
                    ctx.count('enumerate.stepwise.%s.v%d' % (sect, 5 if v5 else 4))
        except Exception as e:  # noqa
            pad = ''
            if v5 and sect == 'loc':
                pad = '|trailing-padding' if any(b['lists'] and b['end'] > b['lists'][-1]['end'] for b in exp['blocks']['loc']) else '|no-padding'
            ctx.fail_exc('enumerate|%s|v%d%s' % (sect, 5 if v5 else 4, pad), e, case)
        if v5:
            blocks = exp['blocks'][sect]
            if len(blocks) >= 2 or any(b['offset_count'] for b in blocks):
                nt = True
            try:
                hdrs = list(obj.iter_CUs())
                if len(hdrs) != len(blocks):
                    ctx.fail('blocks|%s|count' % sect, 'encoded %d blocks, iter_CUs yields %d' % (len(blocks), len(hdrs)), case)
                for h, b in zip(hdrs, blocks):
                    for k in ('cu_offset', 'unit_length', 'is64', 'offset_after_length', 'version', 'address_size', 'segment_selector_size', 'offset_count', 'offset_table_offset'):
                        if h[k] != b[k]:
                            ctx.fail('blocks|%s|header|%s' % (sect, k), 'expected %r got %r (format %d)' % (b[k], h[k], b['fmt']), case)
                    gotoffs = list(h['offsets']) if h['offsets'] else []
                    if gotoffs != b['offsets']:
                        ctx.fail('blocks|%s|offsets|fmt=%d' % (sect, b['fmt']), 'expected %r got %r' % (b['offsets'], gotoffs), case)
                    if sect == 'rng':
                        try:
                            raws = list(obj.iter_CU_range_lists_ex(h))
                            wantl = [[(r['kind'], b['lists'][i]['off'] + r['off'], r['len']) for r in L['recs']] for i, L in enumerate(b['lists'])]
                            gotl = [[(str(r.entry_type)[7:], r.entry_offset, r.entry_length) for r in raw] for raw in raws]
                            if gotl != wantl:
                                ctx.fail('blocks|rng|iter_CU_range_lists_ex|offset_count%s0' % ('>' if b['offset_count'] else '='),
                                         'block at %d (offset_count %d, format %d): expected %d lists %r, got %d %r' % (
                                             b['cu_offset'], b['offset_count'], b['fmt'], len(wantl), wantl[:2], len(gotl), gotl[:2]), case)
                            ctx.count('blocks.iter_CU_range_lists_ex')
                            if gotl == wantl:
                                try:
                                    st2 = di.debug_rnglists_sec.stream
                                    stepped = [[(str(r.entry_type)[7:], r.entry_offset, r.entry_length) for r in raw]
                                               for raw in usage.stepwise(lambda: obj.iter_CU_range_lists_ex(h), usage.disturber(st2))]
                                    if stepped != gotl:
                                        ctx.fail('blocks|rng|iter_CU_range_lists_ex|interleaved-with-other-stream-use', 'block at %d: a plain loop yields %d lists; with the stream moved between two steps %d (or different ones)' % (
                                            b['cu_offset'], len(gotl), len(stepped)), case)
                                except Exception as e:  # noqa
                                    ctx.fail('blocks|rng|iter_CU_range_lists_ex|interleaved-with-other-stream-use', 'block at %d: a plain loop yields %d lists; with the stream moved between two steps the walk raises %s: %s' % (
                                        b['cu_offset'], len(gotl), type(e).__name__, str(e)[:100]), case)
                        except Exception as e:  # noqa
                            ctx.fail_exc('blocks|rng|iter_CU_range_lists_ex', e, case)
                ctx.count('blocks.%s' % sect)
            except Exception as e:  # noqa
                ctx.fail_exc('blocks|%s|iter_CUs' % sect, e, case)
            # the same enumeration consumed step by step while lists of other blocks are fetched in between (a dumper's natural loop)
            try:
                stream = (di.debug_loclists_sec if sect == 'loc' else di.debug_rnglists_sec).stream
                it = obj.iter_CUs()
                stepped = []
                for bi in range(len(blocks) + 1):
                    h = next(it, None)
                    if h is None:
                        break
                    stepped.append(h['cu_offset'])
                    tgt = blocks[(bi * 7 + 1) % len(blocks)]
                    if tgt['lists']:
                        off = tgt['lists'][-1 if bi % 2 else 0]['off']
                        try:
                            if sect == 'rng':
                                obj.get_range_list_at_offset_ex(off)
                            else:
                                stream.seek(off + 1)
                        except Exception:  # noqa   (the fetch itself is judged elsewhere)
                            pass
                    else:
                        stream.seek(0)
                if stepped != [b['cu_offset'] for b in blocks]:
                    ctx.fail('blocks|%s|iter_CUs|interleaved-with-fetches' % sect, 'blocks at %r; stepping through iter_CUs() with list fetches in between visited %r' % (
                        [b['cu_offset'] for b in blocks], stepped), case)
                if len(blocks) >= 2:
                    ctx.count('blocks.stepwise.%s' % sect)
            except Exception as e:  # noqa
                ctx.fail_exc('blocks|%s|iter_CUs|interleaved-with-fetches' % sect, e, case)
    ctx.count('cell.a%d.%s' % (A, 'le' if le else 'be'))
    for key in ('loc5', 'rng5'):
        for B in case.get(key) or []:
            ctx.count('block.fmt%d' % B['fmt'])
            for L in B['lists']:
                for e in L['ents']:
                    ctx.count('%s.%s' % ('lle' if key == 'loc5' else 'rle', e[0]))
    ctx.case(tuple(sorted(secs.items())), nt, {'le': le, 'addr_size': A, 'sections': sorted(secs), 'cus': [(c['version'], c['fmt']) for c in case['cus']],
                                               'loc5_blocks': len(case.get('loc5') or []), 'rng5_blocks': len(case.get('rng5') or []),
                                               'hex': {k: v[:32].hex() for k, v in secs.items() if 'loc' in k or 'rng' in k or 'ranges' in k}})


def _vo(L, i):
    return sum(len(uleb(b)) + len(uleb(e)) for (b, e) in L['views'][:i])


# ---------------------------------------------------------------------------
# generator

def gen_v4_list(ch, A, loc):
    mx = (1 << (8 * A)) - 1
    ents = []
    for _ in range(ch.int(0, 6)):
        if ch.int(0, 4) == 0:
            ents.append(['base', ch.choice([0, 0x1000, mx, ch.word(8 * A)])])
        else:
            b = ch.choice([0, 1, 0x10, ch.word(8 * A - 1)])
            e = ch.choice([b, b + 1, b + 0x20, mx - 1 if b < mx - 1 else b])
            if b == 0 and e == 0:
                e = 4
            if b == mx:
                b = mx - 1
            ents.append(['loc', b, e, ch.bytes(ch.choice([0, 1, 2, 10, 300]))] if loc else ['range', b, e])
    L = {'ents': ents}
    if loc and ch.bool(0.2):
        L['views'] = [[ch.int(0, 300), ch.int(0, 5)] for _ in range(ch.int(1, 3))]
    return L


def gen_v5_list(ch, A, loc, naddr, indexed_only=False):
    kinds = ['offset_pair'] + ([] if indexed_only else ['base_address', 'start_end', 'start_length']) + (['default_location'] if loc else [])
    if naddr:
        kinds += ['base_addressx', 'startx_endx', 'startx_length']
    ents = []
    for _ in range(ch.int(0, 6)):
        k = ch.choice(kinds)
        expr = [ch.bytes(ch.choice([0, 1, 3, 127, 128, 300]))] if loc else []
        a = ch.choice([0, 1, 0x7f, 0x80, ch.word(8 * A - 1)])
        if k == 'base_addressx':
            ents.append([k, ch.int(0, naddr - 1)])
        elif k == 'startx_endx':
            ents.append([k, ch.int(0, naddr - 1), ch.int(0, naddr - 1)] + expr)
        elif k == 'startx_length':
            ents.append([k, ch.int(0, naddr - 1), ch.choice([0, 1, 128, 70000])] + expr)
        elif k == 'offset_pair':
            ents.append([k, a, a + ch.choice([0, 1, 200])] + expr)
        elif k == 'default_location':
            ents.append([k] + expr)
        elif k == 'base_address':
            ents.append([k, a])
        elif k == 'start_end':
            ents.append([k, a, a + ch.choice([0, 4, 0x1000])] + expr)
        else:
            ents.append([k, a, ch.choice([0, 1, 127, 128, 70000])] + expr)
    return {'ents': ents}


DECOYS = [(0x38, ['DW_FORM_data1', 'DW_FORM_data2', 'DW_FORM_udata', 'DW_FORM_sdata', 'DW_FORM_block1', 'DW_FORM_exprloc']),
          (0x2f, ['DW_FORM_data1', 'DW_FORM_data2', 'DW_FORM_data4', 'DW_FORM_sdata', 'DW_FORM_exprloc', 'DW_FORM_block1']),
          (0x37, ['DW_FORM_data1', 'DW_FORM_udata', 'DW_FORM_exprloc']),
          (0x1c, ['DW_FORM_block1', 'DW_FORM_data4', 'DW_FORM_sdata', 'DW_FORM_string']),
          (0x02, ['DW_FORM_block1', 'DW_FORM_block', 'DW_FORM_exprloc', 'DW_FORM_block2']),
          (0x40, ['DW_FORM_block1', 'DW_FORM_exprloc']), (0x2a, ['DW_FORM_block1', 'DW_FORM_exprloc']), (0x19, ['DW_FORM_exprloc', 'DW_FORM_block1']),
          (0x03, ['DW_FORM_string']), (0x3b, ['DW_FORM_data1', 'DW_FORM_udata']), (0x7e, ['DW_FORM_exprloc']), (0x4d, ['DW_FORM_exprloc', 'DW_FORM_block1']),
          (0x48, ['DW_FORM_exprloc', 'DW_FORM_block1'])]


def decoy_spec(ch, form):
    if form in ('DW_FORM_block1', 'DW_FORM_block', 'DW_FORM_block2', 'DW_FORM_exprloc'):
        return {'b': ch.bytes(0, 6)}
    if form == 'DW_FORM_string':
        return {'s': b'nm'}
    if form == 'DW_FORM_sdata':
        return {'v': ch.int(-100, 100)}
    return {'v': ch.int(0, 200)}


def build_case(ch, tier):
    le, A = ch.bool(), ch.choice([4, 8])
    mode = ch.choice(['v4', 'v4', 'v5', 'v5', 'v5', 'both', 'v5x'])
    case = {'le': le, 'addr_size': A, 'cus': []}
    # 'v5x': lists made of index / LEB128 kinds only (no raw address in the list sections); the units' address size (which governs the
    # address table) may then differ from the pointer size of the containing file
    xonly = mode == 'v5x'
    if xonly:
        mode = 'v5'
        if ch.bool(0.7):
            case['file_addr_size'] = 12 - A
    if mode in ('v4', 'both'):
        case['loc4'] = [gen_v4_list(ch, A, True) for _ in range(ch.int(1, 5))]
        case['rng4'] = [gen_v4_list(ch, A, False) for _ in range(ch.int(1, 5))]
    if mode in ('v5', 'both'):
        ntab = ch.int(1, 2) if xonly else ch.int(0, 2)
        case['addr_tables'] = [[ch.word(8 * A - 1) for _ in range(ch.int(2, 6) if xonly else ch.int(1, 6))] for _ in range(ntab)]
        for key in ('loc5', 'rng5'):
            blocks = []
            for _ in range(ch.choice([1, 1, 2, 3, 4])):
                at = ch.int(0, ntab - 1) if ntab and (xonly or ch.bool(0.7)) else None
                naddr = len(case['addr_tables'][at]) if at is not None else 0
                lists = [gen_v5_list(ch, A, key == 'loc5', naddr, xonly) for _ in range(ch.int(1, 5))]
                if key == 'loc5':
                    for L in lists:
                        if ch.bool(0.25):
                            L['gap'] = ch.choice([1, 3, 8])
                        if ch.bool(0.2):
                            L['views'] = [[ch.int(0, 300), ch.int(0, 5)] for _ in range(ch.int(1, 3))]
                blocks.append({'fmt': ch.choice([32, 32, 64]), 'offset_count': ch.choice([0, 0, 1, 3, 6]), 'addr_table': at, 'lists': lists,
                               'tail_gap': ch.choice([0, 0, 0, 2, 5]) if key == 'loc5' else 0})
            case[key] = blocks
    ncu = ch.int(1, 4)
    for _ in range(ncu):
        if mode == 'v4' or (mode == 'both' and ch.bool()):
            ver, fmt = ch.choice([2, 3, 4]), ch.choice([32, 32, 64])
            cu = {'version': ver, 'fmt': fmt}
        else:
            lb = ch.int(0, len(case['loc5']) - 1)
            fmt = case['loc5'][lb]['fmt']
            cu = {'version': 5, 'fmt': fmt, 'loc_block': lb}
            at = case['loc5'][lb]['addr_table']
            rb = [i for i, b in enumerate(case['rng5']) if b['fmt'] == fmt and (b['addr_table'] is None or at is None or b['addr_table'] == at)]
            if rb:
                cu['rng_block'] = ch.choice(rb)
                at = at if at is not None else case['rng5'][cu['rng_block']]['addr_table']
            cu['addr_table'] = at
            # the kind of a v5 unit (compile, partial, skeleton, split compile, type, split type) is a header value like any other: the
            # lists an entry designates do not depend on it
            cu['ut'] = ch.choice([1, 1, 1, 3, 4, 5, 2, 6])
            if cu['ut'] in (2, 4, 5, 6):
                cu['sig'] = ch.word(64)
        ver = cu['version']
        dies = []
        for _ in range(ch.int(1, 6)):
            attrs = []
            used = set()
            def add(a):
                if a['at'] not in used:
                    used.add(a['at'])
                    attrs.append(a)
            if ver >= 5:
                if ch.bool(0.7):
                    blk = case['loc5'][cu['loc_block']]
                    usex = blk['offset_count'] and ch.bool(0.5)
                    L = ch.int(0, 50)
                    at = ch.choice([0x02, 0x02, 0x40])
                    tgt = blk['lists'][L % len(blk['lists'])]
                    if usex:
                        # the list designated by index i is lists[i % len]; a list with views is only ever referenced together with them
                        idx = L % blk['offset_count']
                        if blk['lists'][idx % len(blk['lists'])].get('views'):
                            usex = False
                    if tgt.get('views') and not usex:
                        at = 0x02
                    a5 = {'at': at, 'form': 'DW_FORM_loclistx' if usex else 'DW_FORM_sec_offset', 'kind': 'loclist', 'ref': L}
                    if not usex and not tgt.get('views') and ch.bool(0.25):
                        a5['tail'] = ch.int(1, 5)
                    add(a5)
                    if not usex and tgt.get('views'):
                        add({'at': AT_locviews, 'form': 'DW_FORM_sec_offset', 'kind': 'views', 'ref': L})
                    if ch.bool(0.35):
                        # a second (third) list-valued location attribute on the same entry, designating a list without view pairs
                        for at2 in ch.perm([0x40, 0x2a, 0x48, 0x19])[:ch.int(1, 2)]:
                            L2 = ch.int(0, 50)
                            if not blk['lists'][L2 % len(blk['lists'])].get('views'):
                                add({'at': at2, 'form': 'DW_FORM_sec_offset', 'kind': 'loclist', 'ref': L2})
                if 'rng_block' in cu and ch.bool(0.6):
                    blk = case['rng5'][cu['rng_block']]
                    usex = blk['offset_count'] and ch.bool(0.5)
                    a5 = {'at': 0x55, 'form': 'DW_FORM_rnglistx' if usex else 'DW_FORM_sec_offset', 'kind': 'rnglist', 'ref': ch.int(0, 50)}
                    if not usex and ch.bool(0.25):
                        a5['tail'] = ch.int(1, 5)
                    add(a5)
            else:
                lform = 'DW_FORM_sec_offset' if ver == 4 else ('DW_FORM_data4' if ch.bool(0.7) or cu['fmt'] == 32 else 'DW_FORM_data8')
                if ch.bool(0.7):
                    L = ch.int(0, 50)
                    at = ch.choice([0x02, 0x02, 0x40, 0x2a])
                    tgt = case['loc4'][L % len(case['loc4'])]
                    if tgt.get('views'):
                        at = 0x02
                    a = {'at': at, 'form': lform, 'kind': 'loclist', 'ref': L}
                    if tgt.get('views') and at == 0x02:
                        add(a)
                        add({'at': AT_locviews, 'form': lform, 'kind': 'views', 'ref': L})
                    else:
                        if ch.bool(0.2) and not tgt.get('views'):
                            a['tail'] = ch.int(1, 5)
                        add(a)
                    if ch.bool(0.35):
                        for at2 in ch.perm([0x40, 0x2a, 0x48, 0x19])[:ch.int(1, 2)]:
                            L2 = ch.int(0, 50)
                            if not case['loc4'][L2 % len(case['loc4'])].get('views'):
                                add({'at': at2, 'form': lform, 'kind': 'loclist', 'ref': L2})
                if ch.bool(0.6):
                    a = {'at': 0x55, 'form': lform, 'kind': 'rnglist', 'ref': ch.int(0, 50)}
                    if ch.bool(0.2):
                        a['tail'] = ch.int(1, 5)
                    add(a)
            for _ in range(ch.int(0, 3)):
                at, forms = ch.choice(DECOYS)
                form = ch.choice(forms)
                if form == 'DW_FORM_exprloc' and ver < 4:
                    form = 'DW_FORM_block1'
                if ver < 4 and at in (0x38, 0x02, 0x40, 0x2a, 0x19, 0x4d, 0x48) and form in ('DW_FORM_data1', 'DW_FORM_data2', 'DW_FORM_data4', 'DW_FORM_data8'):
                    continue      # DWARF v2/v3: any constant form on a location attribute may be read as a list offset
                if at in used:
                    continue
                add({'at': at, 'form': form, 'kind': 'decoy', 'spec': decoy_spec(ch, form)})
            if not attrs:
                add({'at': 0x03, 'form': 'DW_FORM_string', 'kind': 'decoy', 'spec': {'s': b'x'}})
            # locviews must come with a DW_AT_location list in the same DIE (library asserts it): keep order location, views
            dies.append(attrs)
        for d_ in dies:
            for a_ in d_:
                if ch.bool(0.12):
                    a_['indirect'] = ch.choice([1, 1, 2])
        cu['dies'] = dies
        if cu['version'] < 5 and ch.bool(0.3):
            cu['gnu_bases'] = [ch.choice([None, 4, 8, 16, 0x20, ch.int(1, 300)]), ch.choice([None, 0, 8, ch.int(1, 64)])]
        case['cus'].append(cu)
    return case


strategy = composite_from(build_case)


def sweep(tier):
    cases = []
    k = 0
    for A in (4, 8):
        for le in (True, False):
            mx = (1 << (8 * A)) - 1
            for fmt in (32, 64):
                for noff in (0, 1, 3):
                    k += 1
                    addrs = [0x1000, 0x2000, mx - 8, 0]
                    loc_ents = [['base_addressx', 1], ['startx_endx', 0, 1, b'\x50'], ['startx_length', 2, 8, b''], ['offset_pair', 1, 0x80, b'\x91\x7f'],
                                ['default_location', b'\x30\x9f'], ['base_address', 0x400000], ['start_end', 4, mx - 1, b'x' * 130], ['start_length', 0x10, 0x4000, b'\x51']]
                    rng_ents = [[e[0]] + [x for x in e[1:] if not isinstance(x, bytes)] for e in loc_ents if e[0] != 'default_location']
                    for tail_gap in (0, 3):
                        case = {'le': le, 'addr_size': A, 'addr_tables': [addrs],
                                'loc5': [{'fmt': fmt, 'offset_count': noff, 'addr_table': 0, 'lists': [{'ents': loc_ents}, {'ents': [], 'gap': 2}, {'ents': loc_ents[3:5], 'views': [[1, 2], [3, 300]]}], 'tail_gap': tail_gap},
                                         {'fmt': fmt, 'offset_count': 0, 'addr_table': 0, 'lists': [{'ents': loc_ents[5:]}], 'tail_gap': 0}],
                                'rng5': [{'fmt': fmt, 'offset_count': noff, 'addr_table': 0, 'lists': [{'ents': rng_ents}, {'ents': []}, {'ents': rng_ents[2:4]}], 'tail_gap': 0},
                                         {'fmt': fmt, 'offset_count': 2, 'addr_table': 0, 'lists': [{'ents': rng_ents[4:]}, {'ents': rng_ents[:1]}], 'tail_gap': 0}]}
                        dies = []
                        for i in range(3):
                            d = [{'at': 0x02, 'form': 'DW_FORM_loclistx' if noff and i < noff else 'DW_FORM_sec_offset', 'kind': 'loclist', 'ref': i}]
                            if i == 2 and not (noff and i < noff):
                                d.append({'at': AT_locviews, 'form': 'DW_FORM_sec_offset', 'kind': 'views', 'ref': 2})
                            d.append({'at': 0x55, 'form': 'DW_FORM_rnglistx' if noff and i < noff else 'DW_FORM_sec_offset', 'kind': 'rnglist', 'ref': i})
                            d.append({'at': 0x38, 'form': 'DW_FORM_data1', 'kind': 'decoy', 'spec': {'v': 4}})
                            dies.append(d)
                        case['cus'] = [{'version': 5, 'fmt': fmt, 'loc_block': 0, 'rng_block': 0, 'addr_table': 0, 'dies': dies},
                                       {'version': 5, 'fmt': fmt, 'loc_block': 1, 'rng_block': 1, 'addr_table': 0,
                                        'dies': [[{'at': 0x40, 'form': 'DW_FORM_sec_offset', 'kind': 'loclist', 'ref': 0}, {'at': 0x55, 'form': 'DW_FORM_rnglistx', 'kind': 'rnglist', 'ref': 1}]]}]
                        cases.append(case)
                        # the same file with every list attribute of the first unit behind DW_FORM_indirect (decoys stay direct, so that no
                        # declared form of the abbreviation is an index form)
                        import copy
                        c2 = copy.deepcopy(case)
                        for d_ in c2['cus'][0]['dies']:
                            for a_ in d_:
                                if a_['kind'] != 'decoy':
                                    a_['indirect'] = 1 + (noff + tail_gap) % 2
                        cases.append(c2)
            # v4 family with every list-capable form per version
            for ver in (2, 3, 4):
                for fmt in (32, 64):
                    lform = 'DW_FORM_sec_offset' if ver == 4 else ('DW_FORM_data4' if fmt == 32 else 'DW_FORM_data8')
                    loc4 = [{'ents': [['loc', 0x10, 0x20, b'\x50'], ['base', 0x5000], ['loc', 1, mx - 1, b''], ['loc', 0, 4, b'z' * 300]]},
                            {'ents': []}, {'ents': [['base', mx], ['loc', 8, 8, b'\x91\x00']], 'views': [[7, 0], [200, 1]]}]
                    rng4 = [{'ents': [['range', 0x10, 0x20], ['base', 0x7000], ['range', 0, 1], ['range', mx - 1, mx - 1]]}, {'ents': []}, {'ents': [['base', 0], ['range', 4, 8]]}]
                    dies = [[{'at': 0x02, 'form': lform, 'kind': 'loclist', 'ref': 0}, {'at': 0x55, 'form': lform, 'kind': 'rnglist', 'ref': 0}],
                            [{'at': 0x40, 'form': lform, 'kind': 'loclist', 'ref': 0, 'tail': 2}, {'at': 0x55, 'form': lform, 'kind': 'rnglist', 'ref': 0, 'tail': 1}],
                            [{'at': 0x02, 'form': lform, 'kind': 'loclist', 'ref': 2}, {'at': AT_locviews, 'form': lform, 'kind': 'views', 'ref': 2}, {'at': 0x55, 'form': lform, 'kind': 'rnglist', 'ref': 2}],
                            [{'at': 0x2a, 'form': lform, 'kind': 'loclist', 'ref': 1}, {'at': 0x55, 'form': lform, 'kind': 'rnglist', 'ref': 1}]]
                    for at, forms in DECOYS:
                        for form in forms:
                            if form == 'DW_FORM_exprloc' and ver < 4:
                                continue
                            if ver < 4 and at in (0x38, 0x02, 0x40, 0x2a, 0x19, 0x4d, 0x48) and form in ('DW_FORM_data1', 'DW_FORM_data2', 'DW_FORM_data4', 'DW_FORM_data8'):
                                continue
                            dies.append([{'at': at, 'form': form, 'kind': 'decoy', 'spec': decoy_spec(RndChooser(7), form)}])
                    cases.append({'le': le, 'addr_size': A, 'loc4': loc4, 'rng4': rng4, 'cus': [{'version': ver, 'fmt': fmt, 'dies': dies}]})
                    cases.append({'le': le, 'addr_size': A, 'loc4': loc4, 'rng4': rng4,
                                  'cus': [{'version': ver, 'fmt': fmt, 'dies': dies[:6], 'gnu_bases': [2 * A, 8]}]})
            # both generations in one file, with lists at EQUAL numeric offsets in the old and the new section (the offsets of the two
            # sections are unrelated number spaces), v4 unit first and v5 unit first
            noff = 1 if A == 4 else 5            # first v5 list at 12 + 4 * noff = 16 / 32 = size of a v4 list with one entry
            for order in (0, 1):
                rng4 = [{'ents': [['range', 0x10, 0x20]]}, {'ents': [['range', 0x30, 0x44], ['range', 0x50, 0x60]]}]
                loc4 = [{'ents': [['loc', 0x10, 0x20, b'\x50']]}, {'ents': [['loc', 0x30, 0x44, b'\x51']]}]
                rng5 = [{'fmt': 32, 'offset_count': noff, 'addr_table': None, 'lists': [{'ents': [['offset_pair', 1, 2]]}, {'ents': [['start_length', 0x100, 8]]}], 'tail_gap': 0}]
                loc5 = [{'fmt': 32, 'offset_count': noff, 'addr_table': None, 'lists': [{'ents': [['offset_pair', 1, 2, b'\x52']]}, {'ents': [['start_length', 0x100, 8, b'\x53']]}], 'tail_gap': 0}]
                cu4 = {'version': 4, 'fmt': 32, 'dies': [[{'at': 0x02, 'form': 'DW_FORM_sec_offset', 'kind': 'loclist', 'ref': i}, {'at': 0x55, 'form': 'DW_FORM_sec_offset', 'kind': 'rnglist', 'ref': i}] for i in (0, 1)]}
                cu5 = {'version': 5, 'fmt': 32, 'loc_block': 0, 'rng_block': 0, 'addr_table': None,
                       'dies': [[{'at': 0x02, 'form': 'DW_FORM_sec_offset', 'kind': 'loclist', 'ref': i}, {'at': 0x55, 'form': 'DW_FORM_sec_offset', 'kind': 'rnglist', 'ref': i}] for i in (0, 1)]}
                cases.append({'le': le, 'addr_size': A, 'addr_tables': [], 'loc4': loc4, 'rng4': rng4, 'loc5': loc5, 'rng5': rng5, 'cus': [cu4, cu5] if order == 0 else [cu5, cu4]})
            # decoys in a v5 unit as well
            dies = []
            for at, forms in DECOYS:
                for form in forms:
                    dies.append([{'at': at, 'form': form, 'kind': 'decoy', 'spec': decoy_spec(RndChooser(7), form)}])
            cases.append({'le': le, 'addr_size': A, 'addr_tables': [], 'loc5': [{'fmt': 32, 'offset_count': 0, 'addr_table': None, 'lists': [{'ents': []}], 'tail_gap': 0}],
                          'rng5': [{'fmt': 32, 'offset_count': 0, 'addr_table': None, 'lists': [{'ents': []}], 'tail_gap': 0}],
                          'cus': [{'version': 5, 'fmt': 32, 'loc_block': 0, 'rng_block': 0, 'addr_table': None, 'dies': dies}]})
    return cases


def floors(ctx):
    c = ctx.counters
    out = []
    for k in LLE:
        if k != 'end_of_list' and c['lle.' + k] == 0:
            out.append('DW_LLE kind never generated: ' + k)
    for k in RLE:
        if k != 'end_of_list' and c['rle.' + k] == 0:
            out.append('DW_RLE kind never generated: ' + k)
    for k in ('fetch.loclistx', 'fetch.rnglistx', 'fetch.loclist.v4', 'fetch.loclist.v5', 'fetch.rnglist.v4', 'fetch.rnglist.v5', 'enumerate.loc.v4', 'enumerate.loc.v5',
              'enumerate.rng.v4', 'enumerate.rng.v5', 'blocks.loc', 'blocks.rng', 'blocks.iter_CU_range_lists_ex', 'block.fmt32', 'block.fmt64',
              'blocks.stepwise.loc', 'blocks.stepwise.rng', 'unit-address-size-differs-from-file',
              'classify.expr', 'classify.list', 'classify.none', 'pair.loc', 'cell.a4.le', 'cell.a4.be', 'cell.a8.le', 'cell.a8.be'):
        if c[k] == 0:
            out.append('no case with ' + k)
    return out

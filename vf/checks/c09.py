"""C09 - dynamic linking information is exact, with or without section headers."""
import io
import zlib
import os
import struct

from vf import core
from vf import registry as REG
from vf import usage
from vf.enc import elf as W
from vf.enc import c09_img as I
from vf.choose import RndChooser, composite_from

ID = 'C09'
RULE = ('dynamic images written by the independent ELF writer: .dynamic (sh_link -> string table) + dynamic string table + .dynsym + '
        '{SysV hash, GNU hash, both, neither} + REL/RELA/JMPREL/RELR tables, laid out in any file order and mapped by 1..4 PT_LOAD '
        'segments with p_vaddr != p_offset (all dynamic pointers are virtual addresses), PT_DYNAMIC, decoy non-LOAD segments over the '
        'same addresses, zero-filled (memsz > filesz) parts; tag sequences with every string-valued tag (NEEDED, SONAME, RPATH, RUNPATH, '
        'SUNW_FILTER on Solaris), duplicates, MIPS / AArch64 / Solaris tag sets, foreign and unknown tag numbers, entries after the '
        'first DT_NULL; each image in three containers: full section headers, headers stripped (e_shoff=e_shnum=e_shstrndx=0), and a '
        '.dynamic section whose offset differs from PT_DYNAMIC (second copy), optionally with a decoy section named .dynstr. Oracle = the '
        'model: tags up to and including the first DT_NULL (d_tag by the name-or-int rule against the library table of the machine/OS '
        'and the vendored registry, d_val/d_ptr, resolved strings), symbols, relocation tables, get_table_offset through the PT_LOADs, '
        'num_symbols == model count when a hash table determines it; plus equality of section view, segment view and stripped segment '
        'view. The shipped files with a PT_DYNAMIC go through the same stripping transform, judged by an independent struct reader. '
        'Non-trivial: an image compared in >= 2 containers that has >= 1 string-valued tag and >= 2 dynamic symbols. Distinct by SHA-1 '
        'of the encoded containers.')
N = {'quick': 1200, 'thorough': 40000}
ASSUMPTIONS = [
    'strings are valid UTF-8 and NUL-terminated inside the string table (the section string table decodes with replacement, the '
    'pointer-located one strictly: a difference the property does not speak about)',
    'tables with d_ptr = 0 are not generated (the API treats 0 as absent); DT_STRTAB, DT_SYMTAB, DT_STRSZ, DT_SYMENT always present and correct; '
    'relocation groups are complete (address, size, entry size / DT_PLTREL)',
    'GNU hash tables are well formed (hashed part sorted by bucket, bloom size a power of two) or have the exact shape GNU ld emits '
    'for a table without exported symbols; SysV nchain equals the symbol count (gABI)',
    'a tag that the gABI allows once and that occurs twice with different values (only generated for the REL/RELA group) may be resolved '
    'to the first or to the last occurrence, but address and size must come from the same occurrence',
    'an address in the zero-filled part of a PT_LOAD (beyond p_filesz) has no file offset (same rule as C02)',
    'MIPS / AArch64 machines are not combined with the Solaris OSABI (the precedence between the two tag sets is not specified)',
    'symbol count: asserted when a SysV table is present, or a GNU table that hashes at least one symbol or has symoffset == count; for a '
    'GNU table of the ld "empty" shape without DT_HASH it is asserted only where the next dynamic pointer above DT_SYMTAB marks the '
    'exact end of the table (the only remaining source), otherwise the case is counted as unrecoverable and not judged',
    'corpus: only files whose DT_STRTAB/DT_SYMTAB map through a PT_LOAD onto the sections linked from the SHT_DYNAMIC section at '
    'PT_DYNAMIC.p_offset (self-consistency precondition; violators are counted, not judged)',
]

_c = {}


def lib():
    if not _c:
        core.use_repo()
        from elftools.elf.elffile import ELFFile
        from elftools.elf.dynamic import DynamicSection, DynamicSegment
        from elftools.elf import enums as E
        _c.update(ELFFile=ELFFile, DynamicSection=DynamicSection, DynamicSegment=DynamicSegment, E=E)
    return _c


# ---------------------------------------------------------------------------
# tag naming rule

MACH_KEY = {I.EM_MIPS: 'EM_MIPS', I.EM_MIPS_RS3_LE: 'EM_MIPS_RS3_LE', I.EM_AARCH64: 'EM_AARCH64'}
MARKERS = ('DT_NUM', 'DT_PROCNUM', 'DT_MIPS_NUM', 'DT_LOOS', 'DT_HIOS', 'DT_LOPROC', 'DT_HIPROC', 'DT_VALRNGLO', 'DT_VALRNGHI',
           'DT_ADDRRNGLO', 'DT_ADDRRNGHI', 'DT_ENCODING', 'DT_SUNW_ENCODING')


def expected_tag_table(machine, osabi):
    """the library table that applies to (machine, OS): common + machine set, else + Solaris set."""
    E = lib()['E']
    t = {k: v for k, v in E.ENUM_D_TAG_COMMON.items() if isinstance(v, int)}
    if machine in MACH_KEY and MACH_KEY[machine] in E.ENUMMAP_EXTRA_D_TAG_MACHINE:
        t.update(E.ENUMMAP_EXTRA_D_TAG_MACHINE[MACH_KEY[machine]])
    elif osabi == I.OSABI_SOLARIS:
        t.update(E.ENUM_D_TAG_SOLARIS)
    return t


def tag_verdict(got, enc, table):
    """None when acceptable, else a short reason."""
    if isinstance(got, bool) or not isinstance(got, (int, str)):
        return 'type-%s' % type(got).__name__
    if isinstance(got, int):
        if got != enc:
            return 'int-differs'
        if 0 <= enc <= 29:
            return 'core-tag-unnamed'
        if enc in table.values():
            return 'tabled-tag-unnamed'
        return None
    if table.get(got) != enc:
        return 'name-of-other-code' if got in table else 'name-not-in-table-of-machine'
    if got not in MARKERS:
        rv = REG.elf_names().get(got)
        if rv and enc not in rv:
            return 'registry-disagrees'
    return None


STR_ATTRS = ('needed', 'soname', 'rpath', 'runpath', 'sunw_filter')
STR_TAGS = {I.DT_NEEDED: 'needed', I.DT_SONAME: 'soname', I.DT_RPATH: 'rpath', I.DT_RUNPATH: 'runpath'}

QNAMES = {'DT_STRTAB': 5, 'DT_SYMTAB': 6, 'DT_HASH': 4, 'DT_GNU_HASH': I.DT_GNU_HASH, 'DT_REL': 17, 'DT_RELA': 7, 'DT_JMPREL': 23,
          'DT_RELR': 36, 'DT_PLTGOT': 3, 'DT_INIT': 12, 'DT_FINI': 13, 'DT_INIT_ARRAY': 25, 'DT_FINI_ARRAY': 26, 'DT_DEBUG': 21,
          'DT_VERSYM': 0x6ffffff0, 'DT_NEEDED': 1, 'DT_NULL': 0, 'DT_SONAME': 14, 'DT_FLAGS': 30}
PTR_QUERIES = ('DT_STRTAB', 'DT_SYMTAB', 'DT_HASH', 'DT_GNU_HASH', 'DT_REL', 'DT_RELA', 'DT_JMPREL', 'DT_RELR', 'DT_PLTGOT', 'DT_INIT',
               'DT_FINI', 'DT_INIT_ARRAY', 'DT_FINI_ARRAY', 'DT_DEBUG', 'DT_VERSYM')
TYPE_QUERIES = ('DT_NEEDED', 'DT_NULL', 'DT_SONAME', 'DT_FLAGS', 'DT_STRTAB', 'DT_REL', 'DT_RELA')

REL_GROUPS = {'REL': (17, 18, 19), 'RELA': (7, 8, 9), 'JMPREL': (23, 2, 20), 'RELR': (36, 35, 37)}


# ---------------------------------------------------------------------------
# observation of one Dynamic object (section or segment) -> plain data

class Exc:
    def __init__(self, e):
        self.t, self.site = core.exc_site(e)
        self.msg = str(e)[:200]
        self.e = e

    def key(self):
        return ('EXC', self.t, self.site)

    def __repr__(self):
        return '<%s at %s: %s>' % (self.t, self.site, self.msg)


def attempt(fn):
    try:
        return fn()
    except Exception as e:  # noqa
        return Exc(e)


def canon_tag(t):
    e = t.entry
    return (e['d_tag'], e['d_val'], e['d_ptr'], t['d_tag'], tuple((a, getattr(t, a)) for a in STR_ATTRS if hasattr(t, a)))


def canon_sym(s):
    e = s.entry
    return (s.name, e['st_value'], e['st_size'], e['st_info']['bind'], e['st_info']['type'], e['st_other']['visibility'], e['st_shndx'])


def canon_reloc(r, relr):
    e = r.entry
    if relr:
        return (e['r_offset'],)
    return (e['r_offset'], e['r_info_sym'], e['r_info_type'], e['r_addend'] if 'r_addend' in e else None, e['r_info'])


def observe(dyn, is_segment, ntags, nsyms, sym_queries, iter_syms, first_use=0, ctx=None):
    """-> {aspect: value | Exc}.  ntags: model number of tags incl. DT_NULL (indices probed with get_tag).
    first_use: what is done to the fresh view object before the fixed sequence of observations (whatever the object remembers of it must not
    change any answer): 1 = a tag walk given up after one item and kept alive; 2 = a symbol walk given up after one or two items and kept
    alive (segment views); 3 = the name look-ups first (segment views); 4 = the last tag by index first."""
    o = {}
    keep_alive = []
    if first_use:
        try:
            if first_use == 1:
                it = iter(dyn.iter_tags())
                next(it, None)
                keep_alive.append(it)
            elif first_use == 2 and is_segment and iter_syms:
                it = iter(dyn.iter_symbols())
                next(it, None)
                if nsyms % 2:
                    next(it, None)
                keep_alive.append(it)
            elif first_use == 3 and is_segment and iter_syms:
                for q in sym_queries:
                    dyn.get_symbol_by_name(q)
            elif first_use == 4 and ntags:
                dyn.get_tag(ntags - 1)
            if ctx is not None:
                ctx.count('first-use.%d' % first_use)
        except Exception:  # noqa   (judged by the observations below)
            pass
    o['iter_tags'] = attempt(lambda: [canon_tag(t) for t in _bounded(dyn.iter_tags(), ntags + 8)])
    o['get_tag'] = [attempt(lambda i=i: canon_tag(dyn.get_tag(i))) for i in range(ntags)]
    o['num_tags'] = attempt(dyn.num_tags)
    o['by_type'] = {q: attempt(lambda q=q: [canon_tag(t) for t in _bounded(dyn.iter_tags(q), ntags + 8)]) for q in TYPE_QUERIES}
    o['table_offset'] = {q: attempt(lambda q=q: tuple(dyn.get_table_offset(q))) for q in PTR_QUERIES}

    def relocs():
        out = {}
        for k, tab in dyn.get_relocation_tables().items():
            relr = k == 'RELR'
            ents = attempt(lambda: [canon_reloc(r, relr) for r in tab.iter_relocations()])
            num = attempt(tab.num_relocations)
            first = attempt(lambda: canon_reloc(tab.get_relocation(0), relr)) if isinstance(num, int) and num > 0 else None
            out[k] = {'is_rela': None if relr else attempt(tab.is_RELA), 'num': num, 'ents': ents, 'first': first}
        return out
    o['relocs'] = attempt(relocs)
    if is_segment:
        o['get_symbol'] = [attempt(lambda i=i: canon_sym(dyn.get_symbol(i))) for i in range(nsyms)]
        o['num_symbols'] = attempt(dyn.num_symbols)
        ns = o['num_symbols']
        if iter_syms and isinstance(ns, int) and 0 <= ns <= nsyms + 64:
            o['iter_symbols'] = attempt(lambda: [canon_sym(s) for s in dyn.iter_symbols()])
            o['by_name'] = {q: attempt(lambda q=q: _by_name(dyn, q)) for q in sym_queries}
    # the walks again, consumed step by step with the stream moved, a nested walk started and another question asked between two steps
    st = getattr(dyn, 'stream', None) or getattr(dyn, '_stream', None) or dyn.elffile.stream
    sw = {}
    if not isinstance(o['iter_tags'], Exc):
        sw['iter_tags'] = attempt(lambda: [canon_tag(t) for t in usage.stepwise(lambda: _bounded(dyn.iter_tags(), ntags + 8), usage.disturber(st, dyn.iter_tags, (dyn.num_tags,)))])
    if isinstance(o.get('iter_symbols'), list):
        sw['iter_symbols'] = attempt(lambda: [canon_sym(s_) for s_ in usage.stepwise(dyn.iter_symbols, usage.disturber(st, dyn.iter_tags, (dyn.num_tags,)))])
    o['stepwise'] = {k: True if okey(v) == okey(o[k]) else (repr(v) if isinstance(v, Exc) else 'differs') for k, v in sw.items()}
    return o


def _by_name(dyn, q):
    r = dyn.get_symbol_by_name(q)
    return None if r is None else [canon_sym(s) for s in r]


def _bounded(it, limit):
    for k, x in enumerate(it):
        if k >= limit:
            raise RuntimeError('iteration did not stop after %d tags' % limit)
        yield x


def okey(v):
    """comparable form of an observation (exceptions by type and site)"""
    if isinstance(v, Exc):
        return v.key()
    if isinstance(v, dict):
        return tuple(sorted((k, okey(x)) for k, x in v.items()))
    if isinstance(v, (list, tuple)):
        return tuple(okey(x) for x in v)
    return v


# ---------------------------------------------------------------------------
# expectations

def code_ok(got, enc, table, must):
    if isinstance(got, int) and not isinstance(got, bool):
        return got == enc and enc not in must
    return isinstance(got, str) and table.get(got) == enc


class Fails:
    """failures of one image, merged over the views and accessors that show them (one root cause -> one bucket)"""

    def __init__(self):
        self.f = {}       # key -> {(view, via): detail}

    def add(self, key, view, detail, via=None):
        self.f.setdefault(key, {})[(view, via)] = detail

    def flush(self, ctx, case, views):
        segv = set(v for v in views if v.startswith('seg.'))
        secv = set(v for v in views if v.startswith('sec.'))
        for key in sorted(self.f):
            d = self.f[key]
            vs = set(v for v, _ in d)
            vias = set(a for _, a in d if a is not None)
            fam = key.split('|')[0]
            appl = segv if fam in ('num_symbols', 'symbols') else set(views)
            if vs == appl or vs == {'seg.*'}:
                label = ''
            elif vs == segv:
                label = '|segment-views'
            elif vs == secv:
                label = '|section-views'
            elif vs == segv - {'seg.full'} and len(vs) == 2:
                label = '|segment-without-linked-section'
            elif vs <= {'seg.stripped'}:
                label = '|stripped-only'
            elif vs <= {'seg.moved', 'sec.moved'}:
                label = '|moved-only:' + '+'.join(sorted(vs))
            elif vs <= {'seg.full', 'sec.full'}:
                label = '|full-only:' + '+'.join(sorted(vs))
            else:
                label = '|views=' + '+'.join(sorted(vs))
            if fam == 'tags' and vias and not ('iter' in vias and 'get_tag' in vias):
                label += '|via=' + '+'.join(sorted(vias))
            if fam == 'symbols' and vias and 'get_symbol' not in vias:
                label += '|via=' + '+'.join(sorted(vias))
            k0 = sorted(d, key=lambda x: (x[0], str(x[1])))[0]
            ctx.fail(key + label, '[%s%s] %s' % (k0[0], ' via ' + k0[1] if k0[1] else '', d[k0]), case)


def check_view(F, view, o, X, is_segment):
    """compare the observation o of one view with the expectation X."""
    for k, v in (o.get('stepwise') or {}).items():
        if v is not True:
            F.add('%s|interleaved-with-other-stream-use' % k, view, 'a plain loop and a step-by-step walk with other stream users in between disagree: %s' % v)
    tags = X['tags']
    table = X['table']
    n = len(tags)

    def cmp_tag(via, got, k):
        tag, val, attr, s = tags[k]
        g_tag, g_val, g_ptr, g_item, g_attrs = got
        v = tag_verdict(g_tag, tag, table)
        if v:
            F.add('tags|d_tag|%s' % v, view, 'entry %d: encoded d_tag %#x decoded as %r' % (k, tag, g_tag), via)
        if g_item != g_tag:
            F.add('tags|getitem', view, 'entry %d: tag["d_tag"] %r != entry.d_tag %r' % (k, g_item, g_tag), via)
        if g_val != val:
            F.add('tags|d_val', view, 'entry %d (tag %#x): encoded d_val %#x got %r' % (k, tag, val, g_val), via)
        if g_ptr != val:
            F.add('tags|d_ptr', view, 'entry %d (tag %#x): encoded d_ptr %#x got %r' % (k, tag, val, g_ptr), via)
        ga = dict(g_attrs)
        if attr is not None:
            if attr not in ga:
                F.add('tags|string|%s|unresolved' % attr, view, 'entry %d: no .%s attribute, expected %r (d_tag %r)' % (k, attr, s, g_tag), via)
            elif ga[attr] != s:
                F.add('tags|string|value', view, 'entry %d .%s: expected %r got %r' % (k, attr, s, ga[attr]), via)
        extra = sorted(a for a in ga if a != attr)
        if extra:
            F.add('tags|string|unexpected-attribute', view, 'entry %d (tag %#x) has attributes %r' % (k, tag, extra), via)

    # sequential
    it = o['iter_tags']
    if isinstance(it, Exc):
        F.add('exc|iter_tags|%s|%s' % (it.t, it.site), view, repr(it))
    else:
        if len(it) != n:
            kind = 'terminator-not-yielded' if len(it) == n - 1 else ('continues-after-DT_NULL' if len(it) > n else 'short')
            F.add('tags|iter|count|%s' % kind, view, 'model has %d entries up to and including the first DT_NULL, iter_tags yielded %d' % (n, len(it)))
        for k, g in enumerate(it[:n]):
            cmp_tag('iter', g, k)
    # random access
    for k, g in enumerate(o['get_tag']):
        if isinstance(g, Exc):
            F.add('exc|get_tag|%s|%s' % (g.t, g.site), view, 'get_tag(%d) of %d: %r' % (k, n, g))
        else:
            cmp_tag('get_tag', g, k)
    nt = o['num_tags']
    if isinstance(nt, Exc):
        F.add('exc|num_tags|%s|%s' % (nt.t, nt.site), view, repr(nt))
    elif nt != n:
        F.add('tags|num_tags', view, 'expected %d (terminator included) got %r' % (n, nt))
    # filtered iteration
    for q, got in sorted(o['by_type'].items()):
        exp = [k for k, t in enumerate(tags) if t[0] == QNAMES[q]]
        if isinstance(got, Exc):
            F.add('exc|iter_tags(type)|%s|%s' % (got.t, got.site), view, 'type %s: %r' % (q, got))
            continue
        if len(got) != len(exp):
            F.add('tags|iter(type)|count', view, 'type %s: model has entries %r, got %d tags' % (q, exp, len(got)))
            continue
        for g, k in zip(got, exp):
            cmp_tag('iter(type)', g, k)
    # pointers -> offsets
    for q, got in sorted(o['table_offset'].items()):
        acc = X['table_offset'][q]
        if isinstance(got, Exc):
            F.add('exc|get_table_offset|%s|%s' % (got.t, got.site), view, '%s: %r' % (q, got))
        elif got not in acc:
            ptrs = sorted(set(a[0] for a in acc), key=repr)
            if got[0] not in [a[0] for a in acc]:
                kind = 'pointer'
            elif got[1] is None:
                kind = 'offset-missing'
            elif all(a[1] is None for a in acc):
                kind = 'offset-for-unbacked-address'
            else:
                kind = 'offset'
            F.add('table_offset|%s' % kind, view, '%s: expected one of %r got %r (pointer candidates %r)' % (q, sorted(acc, key=repr), got, ptrs))
    # relocation tables
    rl = o['relocs']
    if isinstance(rl, Exc):
        F.add('exc|get_relocation_tables|%s|%s' % (rl.t, rl.site), view, repr(rl))
    else:
        if sorted(rl) != sorted(X['relocs']):
            F.add('relocs|keys', view, 'expected tables %r got %r' % (sorted(X['relocs']), sorted(rl)))
        for k in sorted(set(rl) & set(X['relocs'])):
            g = rl[k]
            alts = X['relocs'][k]       # list of (is_rela, [entries])
            for sub in ('is_rela', 'num', 'ents', 'first'):
                if isinstance(g[sub], Exc):
                    F.add('exc|relocs.%s|%s|%s' % (sub, g[sub].t, g[sub].site), view, '%s: %r' % (k, g[sub]))
            if isinstance(g['ents'], Exc):
                continue
            ok = [a for a in alts if list(a[1]) == [tuple(x) for x in g['ents']]]
            if not ok:
                if len(alts) > 1:
                    kind = 'duplicated-group|neither-first-nor-last-occurrence'
                elif len(g['ents']) != len(alts[0][1]):
                    kind = 'count'
                else:
                    kind = 'entries'
                F.add('relocs|%s|%s' % (k, kind), view, 'expected %s got %r' % (' or '.join(repr(a[1][:6]) for a in alts), g['ents'][:6]))
                continue
            a = ok[0]
            if k != 'RELR' and not isinstance(g['is_rela'], Exc) and g['is_rela'] != a[0]:
                F.add('relocs|%s|is_RELA' % k, view, 'expected %r got %r' % (a[0], g['is_rela']))
            if not isinstance(g['num'], Exc) and g['num'] != len(a[1]):
                F.add('relocs|%s|num_relocations' % k, view, 'expected %d got %r' % (len(a[1]), g['num']))
            if g['first'] is not None and not isinstance(g['first'], Exc) and tuple(g['first']) != tuple(a[1][0]):
                F.add('relocs|%s|get_relocation' % k, view, 'expected %r got %r' % (a[1][0], g['first']))
    if not is_segment:
        return
    # symbols
    syms = X['syms']
    M = X['M']
    E = lib()['E']
    T_BIND = {k: v for k, v in E.ENUM_ST_INFO_BIND.items() if isinstance(v, int)}
    T_TYPE = {k: v for k, v in E.ENUM_ST_INFO_TYPE.items() if isinstance(v, int)}
    T_VIS = {k: v for k, v in E.ENUM_ST_VISIBILITY.items() if isinstance(v, int)}
    T_SHN = {k: v for k, v in E.ENUM_ST_SHNDX.items() if isinstance(v, int)}

    def cmp_sym(via, g, i):
        s = syms[i]
        name, val, size, bind, typ, vis, shndx = g
        if name != s['name']:
            F.add('symbols|name', view, 'symbol %d: expected %r got %r' % (i, s['name'], name), via)
        if val != s['value'] & M:
            F.add('symbols|st_value', view, 'symbol %d: expected %#x got %r' % (i, s['value'] & M, val), via)
        if size != s['size'] & M:
            F.add('symbols|st_size', view, 'symbol %d: expected %#x got %r' % (i, s['size'] & M, size), via)
        if not code_ok(bind, s['info'] >> 4, T_BIND, {0, 1, 2}):
            F.add('symbols|bind', view, 'symbol %d: encoded %d got %r' % (i, s['info'] >> 4, bind), via)
        if not code_ok(typ, s['info'] & 15, T_TYPE, set(range(7))):
            F.add('symbols|type', view, 'symbol %d: encoded %d got %r' % (i, s['info'] & 15, typ), via)
        if not code_ok(vis, s['other'] & 7, T_VIS, {0, 1, 2, 3}):
            F.add('symbols|visibility', view, 'symbol %d: encoded %d got %r' % (i, s['other'] & 7, vis), via)
        if not code_ok(shndx, s['shndx'], T_SHN, {0, 0xfff1, 0xfff2}):
            F.add('symbols|st_shndx', view, 'symbol %d: encoded %#x got %r' % (i, s['shndx'], shndx), via)

    for i, g in enumerate(o['get_symbol']):
        if isinstance(g, Exc):
            F.add('exc|get_symbol|%s|%s' % (g.t, g.site), view, 'get_symbol(%d): %r' % (i, g))
        else:
            cmp_sym('get_symbol', g, i)
    ns = o['num_symbols']
    nsym = len(syms)
    count_ok = False
    if isinstance(ns, Exc):
        F.add('exc|num_symbols|%s|%s|hash=%s' % (ns.t, ns.site, X['hashkind']), view, repr(ns))
    elif X['count_rule'] == 'exact':
        if ns != nsym:
            F.add('num_symbols|hash=%s' % X['hashkind'], view, 'table has %d symbols, num_symbols() = %r (%s)' % (nsym, ns, X['hashnote']))
        else:
            count_ok = True
    elif X['count_rule'].startswith('ld-empty'):
        # design-time finding: keep it in its own buckets, no view suffix
        if ns == nsym:
            count_ok = True
        elif X['count_rule'] != 'ld-empty|unrecoverable':
            shape = 'returns-symoffset' if ns == 1 else 'other-value'
            F.add('num_symbols|gnu-hash-empty|symoffset<n|%s|%s' % (X['count_rule'].split('|', 1)[1], shape), 'seg.*',
                  'table has %d symbols; DT_GNU_HASH has the GNU ld "empty" shape (symoffset 1, nbuckets 1, bucket[0] = 0, nothing hashed); '
                  'num_symbols() = %r; %s' % (nsym, ns, X['hashnote']))
    if 'iter_symbols' in o:
        it = o['iter_symbols']
        if isinstance(it, Exc):
            if count_ok:
                F.add('exc|iter_symbols|%s|%s' % (it.t, it.site), view, repr(it))
        else:
            if isinstance(ns, int) and len(it) != ns:
                F.add('symbols|iter|count-vs-num_symbols', view, 'num_symbols() = %d, iter_symbols yielded %d' % (ns, len(it)))
            for i, g in enumerate(it[:nsym]):
                cmp_sym('iter', g, i)
        if count_ok:
            for q, got in sorted(o.get('by_name', {}).items()):
                exp = [i for i, s in enumerate(syms) if s['name'] == q]
                if isinstance(got, Exc):
                    F.add('exc|get_symbol_by_name|%s|%s' % (got.t, got.site), view, '%r: %r' % (q, got))
                elif not exp:
                    if got is not None:
                        F.add('symbols|by_name|absent', view, 'query %r returned %d symbols' % (q, len(got)))
                elif got is None:
                    F.add('symbols|by_name|missing', view, 'query %r present at %r' % (q, exp))
                elif len(got) != len(exp):
                    F.add('symbols|by_name|count', view, 'query %r: expected indices %r, got %d symbols' % (q, exp, len(got)))
                else:
                    for g, i in zip(got, exp):
                        cmp_sym('by_name', g, i)


META_ASPECTS = ('iter_tags', 'get_tag', 'num_tags', 'by_type', 'table_offset', 'relocs')
META_SEG = ('num_symbols', 'get_symbol', 'iter_symbols', 'by_name')


def metamorphic(F, obs, views, count_rule='exact'):
    """section view == segment view == stripped segment view, on everything the model did not already fault."""
    faulted = set()
    for key in F.f:
        faulted.add(key.split('|')[0] if not key.startswith('exc|') else 'exc')
    fam = {'iter_tags': 'tags', 'get_tag': 'tags', 'num_tags': 'tags', 'by_type': 'tags', 'table_offset': 'table_offset', 'relocs': 'relocs',
           'num_symbols': 'num_symbols', 'get_symbol': 'symbols', 'iter_symbols': 'symbols', 'by_name': 'symbols'}
    ref = 'seg.full' if 'seg.full' in obs else views[0]
    for v in views:
        if v == ref:
            continue
        aspects = META_ASPECTS + (META_SEG if v.startswith('seg.') and ref.startswith('seg.') else ())
        for a in aspects:
            if fam[a] in faulted or 'exc' in faulted:
                continue
            if a in ('iter_symbols', 'by_name') and 'num_symbols' in faulted:
                continue      # what lies behind a wrong count is not part of the table
            if a == 'num_symbols' and count_rule in ('none', 'ld-empty|unrecoverable') and {ref, v} != {'seg.full', 'seg.stripped'}:
                continue      # estimate from the program headers, which differ in the 'moved' container (other PT_DYNAMIC)
            if a in obs[ref] and a in obs[v] and okey(obs[ref][a]) != okey(obs[v][a]):
                F.add('meta|%s|%s!=%s' % (a, ref, v), v, 'views disagree: %s -> %r ; %s -> %r' % (ref, _short(obs[ref][a]), v, _short(obs[v][a])))


def _short(x):
    s = repr(okey(x))
    return s if len(s) < 500 else s[:500] + '...'


# ---------------------------------------------------------------------------
# generated images

def v2o(ph, a, size=1):
    for p in ph:
        if p['p_type'] == I.PT_LOAD and p['p_vaddr'] <= a and a + size <= p['p_vaddr'] + p['p_filesz']:
            return a - p['p_vaddr'] + p['p_offset']
    return None


def count_rule(n, sysv, gnu, nothing_hashed, symoffset, heur):
    """what the property can demand of num_symbols():
    exact                                   - a table that determines the count is present
    ld-empty|DT_HASH-present                - GNU table hashes nothing and under-reports (GNU ld shape), SysV table present
    ld-empty|gnu-only|next-pointer-exact    - ditto without SysV table; the next pointer above DT_SYMTAB ends the table exactly
    ld-empty|unrecoverable                  - a GNU table that hashes nothing is the only table and no pointer delimits the symbols
    none                                    - no hash table: nothing demanded"""
    if not sysv and not gnu:
        return 'none'
    if gnu and nothing_hashed:
        if sysv:
            return 'exact' if symoffset == n else 'ld-empty|DT_HASH-present'
        if heur != n:
            return 'ld-empty|unrecoverable'
        return 'exact' if symoffset == n else 'ld-empty|gnu-only|next-pointer-exact'
    return 'exact'


def expectation(case, L):
    cls = case['cls']
    M = (1 << cls) - 1
    blob = L['strblob']
    ents = L['entries']
    k0 = [t for t, _ in ents].index(0)
    solaris = case.get('osabi', 0) == I.OSABI_SOLARIS and case['machine'] not in MACH_KEY
    tags = []
    for t, v in ents[:k0 + 1]:
        attr = STR_TAGS.get(t)
        if attr is None and solaris and t == I.DT_SUNW_FILTER:
            attr = 'sunw_filter'
        s = None
        if attr is not None:
            assert v < len(blob), 'string tag outside the string table'
            s = blob[v:blob.index(b'\0', v)].decode('utf-8')
        tags.append((t, v, attr, s))
    X = {'tags': tags, 'table': expected_tag_table(case['machine'], case.get('osabi', 0)), 'M': M, 'syms': case['syms']}
    ph = L['R']['ph']
    to = {}
    for q in PTR_QUERIES:
        vals = [v for t, v, _, _ in tags if t == QNAMES[q]]
        ptrs = {vals[0], vals[-1]} if vals else {None}
        to[q] = set((p, v2o(ph, p) if p else None) for p in ptrs)
    X['table_offset'] = to
    # relocation tables, from the value specs of the tags before the terminator
    pre = case['tags'] if k0 >= len(case['tags']) else case['tags'][:k0]
    rel = {}
    mips64 = I.is_mips64(case)

    def ents_of(key, rela):
        src = {'rel': case.get('rel'), 'rela': case.get('rela'), 'jmprel': (case.get('jmprel') or {}).get('ents'),
               'rel2': (case.get('rel2') or {}).get('ents')}[key]
        out = []
        for e in src:
            sym = e[1] & (0xffffff if cls == 32 else 0xffffffff)
            typ = e[2] & (0xff if cls == 32 or mips64 else 0xffffffff)
            if cls == 32:
                info = (sym << 8) | typ
            elif mips64:
                info = (sym << 32) | (e[2] & 0xffffffff)
            else:
                info = (sym << 32) | typ
            out.append((e[0] & M, sym, typ, I.signed(e[3], cls) if rela else None, info))
        return out
    for k, (ta, ts, te) in REL_GROUPS.items():
        specs = [t[1] for t in pre if I.signed(t[0], cls) == ta]
        if not specs:
            continue
        alts = []
        for sp in (specs[0], specs[-1]):
            if k == 'RELR':
                alt = (None, [(x & M,) for x in I.relr_decode(case['relr'], cls // 8)])
            else:
                rela = k == 'RELA' or (k == 'JMPREL' and [t[1] for t in pre if t[0] == I.DT_PLTREL][0] == I.DT_RELA)
                alt = (rela, ents_of(sp[1], rela))
            if alt not in alts:
                alts.append(alt)
        rel[k] = alts
    X['relocs'] = rel
    # symbol count rule
    n = len(case['syms'])
    sysv, gnu = case.get('sysv'), case.get('gnu')
    X['hashkind'] = 'both' if sysv and gnu else ('sysv' if sysv else ('gnu' if gnu else 'none'))
    X['hashnote'] = 'sysv nchain=%s; gnu=%r' % (n if sysv else None, gnu)
    nothing_hashed = bool(gnu) and (gnu['form'] == 'ld-empty' or gnu['symoffset'] >= n)
    symoffset = gnu['symoffset'] if gnu else None
    symtab = L['addr']['dynsym']
    higher = [v for t, v, _, _ in tags if v > symtab]
    heur = ((min(higher) - symtab) // W.SYM_SIZE[cls]) if higher else None
    X['count_rule'] = count_rule(n, sysv is not None, bool(gnu), nothing_hashed, symoffset, heur)
    if X['count_rule'].startswith('ld-empty'):
        X['hashnote'] = ('DT_HASH is present and its nchain = %d is the count' % n) if sysv else \
            ('no DT_HASH; the closest dynamic pointer above DT_SYMTAB gives %r symbols' % heur)
    return X


def open_views(ctx, case, F, containers, dyn_sec_index):
    """containers: {name: bytes}.  -> {view: Dynamic object}"""
    Lb = lib()
    out = {}
    for cname in sorted(containers):
        try:
            ef = Lb['ELFFile'](io.BytesIO(containers[cname]))
        except Exception as e:  # noqa
            x = Exc(e)
            F.add('exc|open|%s|%s|container=%s' % (x.t, x.site, cname), 'sec.' + cname, repr(x))
            continue
        if cname == 'moved':
            # the 'moved' views are read through a deep copy of the file object (ELFStructs implements the pickle protocol: a copy is
            # rebuilt from the saved state, and must decode exactly like an object made by the constructor)
            try:
                import copy
                ef = copy.deepcopy(ef)
            except Exception as e:  # noqa
                x = Exc(e)
                F.add('exc|deepcopy|%s|%s' % (x.t, x.site), 'sec.' + cname, repr(x))
                continue
        if cname != 'stripped' and dyn_sec_index is not None:
            try:
                sec = ef.get_section(dyn_sec_index)
                if not isinstance(sec, Lb['DynamicSection']):
                    F.add('section|class', 'sec.' + cname, 'SHT_DYNAMIC section is a %s' % type(sec).__name__)
                else:
                    out['sec.' + cname] = sec
            except Exception as e:  # noqa
                x = Exc(e)
                F.add('exc|get_section(.dynamic)|%s|%s' % (x.t, x.site), 'sec.' + cname, repr(x))
        try:
            segs = [s for s in ef.iter_segments() if isinstance(s, Lb['DynamicSegment'])]
            if len(segs) != 1:
                F.add('segment|count', 'seg.' + cname, 'expected one DynamicSegment, got %d' % len(segs))
            if segs:
                out['seg.' + cname] = segs[0]
        except Exception as e:  # noqa
            x = Exc(e)
            F.add('exc|iter_segments|%s|%s|container=%s' % (x.t, x.site, cname), 'seg.' + cname, repr(x))
    return out


EXPECTED_VIEWS = ('sec.full', 'sec.moved', 'seg.full', 'seg.moved', 'seg.stripped')


def run_img(ctx, case):
    L = I.build_image(case)
    X = expectation(case, L)
    F = Fails()
    dyn = open_views(ctx, case, F, L['data'], L['idx']['dynamic'])
    ntags, nsyms = len(X['tags']), len(case['syms'])
    iter_syms = X['count_rule'] not in ('none', 'ld-empty|unrecoverable')
    obs = {}
    for v in sorted(dyn):
        obs[v] = observe(dyn[v], v.startswith('seg.'), ntags, nsyms, case.get('queries', []), iter_syms,
                         first_use=(zlib.crc32(L['data'][sorted(L['data'])[0]]) + len(v)) % 5, ctx=ctx)
        check_view(F, v, obs[v], X, v.startswith('seg.'))
    views = [v for v in EXPECTED_VIEWS if v in obs]
    if len(views) >= 2:
        metamorphic(F, obs, views, X['count_rule'])
    F.flush(ctx, case, list(EXPECTED_VIEWS))
    # a name look-up in the dynamic segment interrupted by a read error the caller catches may be repeated: the repetition answers as an
    # undisturbed object does
    qs = case.get('queries', [])
    if iter_syms and nsyms >= 3 and qs and 'seg.full' in obs and isinstance(obs['seg.full'].get('by_name'), dict):
        from vf import streams
        try:
            fst = streams.FaultOnce(L['data']['full'])
            dyn2 = next(sg for sg in lib()['ELFFile'](fst).iter_segments() if type(sg).__name__ == 'DynamicSegment')
            dyn2.num_symbols()
            fst.arm(3 + zlib.crc32(L['data']['full']) % (2 * nsyms))
            try:
                dyn2.get_symbol_by_name(qs[0])
            except Exception:  # noqa
                pass
            fst.disarm()
            if fst.faults:
                ctx.count('transient-fault.lookup-interrupted')
                for q in qs:
                    want = obs['seg.full']['by_name'].get(q)
                    got = attempt(lambda q=q: _by_name(dyn2, q))
                    if not isinstance(want, Exc) and okey(got) != okey(want):
                        ctx.fail('symbols|by_name|repeated-after-a-failed-attempt', 'query %r: an undisturbed object answers %r; after a look-up that a read error interrupted %r' % (q, want, got), case)
                        break
        except Exception as e:  # noqa
            ctx.fail_exc('symbols|by_name|repeated-after-a-failed-attempt', e, case)
    # bookkeeping
    nstr = sum(1 for t in X['tags'] if t[2] is not None)
    nload = sum(1 for p in L['R']['ph'] if p['p_type'] == I.PT_LOAD and p['p_filesz'])
    ctx.count('cell.%d%s' % (case['cls'], 'le' if case['le'] else 'be'))
    ctx.count('hash.%s' % X['hashkind'])
    ctx.count('nload.%d' % min(nload, 4))
    ctx.count('count_rule.%s' % X['count_rule'])
    ctx.count('views', len(views))
    fl = 'mips' if case['machine'] in (8, 10) else ('aarch64' if case['machine'] == 183 else ('solaris' if case.get('osabi') == 6 else 'generic'))
    ctx.count('flavor.%s' % fl)
    for t in X['tags']:
        if t[2]:
            ctx.count('str.%s' % t[2])
    if case['after']:
        ctx.count('tags.after-null')
    tl = [t[0] for t in X['tags']]
    if len(set(tl)) < len(tl):
        ctx.count('tags.duplicates')
    if case.get('rel2'):
        ctx.count('tags.duplicated-reloc-group')
    for k in X['relocs']:
        ctx.count('reloc.%s' % k)
    for t in case['tags']:
        if isinstance(t[1], list) and t[1][0] == 'edge':
            ctx.count('pointer-to-%s-byte-of-load' % t[1][2])
    if case.get('decoy'):
        ctx.count('decoy-dynstr')
    if case.get('xsegs'):
        ctx.count('decoy-segments')
    if any(isinstance(t[1], list) and t[0] in QNAMES.values() and t[1][0] == 'bss' for t in case['tags']):
        ctx.count('pointer-into-zero-filled')
    nt = len(views) >= 2 and nstr >= 1 and nsyms >= 2
    ctx.case((L['data']['full'], L['data']['moved']), nt,
             {'cls': case['cls'], 'le': case['le'], 'machine': case['machine'], 'osabi': case.get('osabi', 0), 'views': views,
              'tags': [(hex(t[0]), hex(t[1]), t[3]) for t in X['tags']][:24], 'nsyms': nsyms, 'hash': X['hashkind'], 'nload': nload,
              'relocs': sorted(X['relocs']), 'file_hex': L['data']['full'][:4096].hex(), 'file_len': len(L['data']['full'])})


# ---------------------------------------------------------------------------
# shipped corpus under the stripping transform

CORPUS_DIRS = ('test/testfiles_for_readelf', 'test/testfiles_for_unittests')


def corpus_files():
    out = []
    for d in CORPUS_DIRS:
        p = os.path.join(core.REPO, d)
        if not os.path.isdir(p):
            continue
        for f in sorted(os.listdir(p)):
            fp = os.path.join(p, f)
            if not os.path.isfile(fp):
                continue
            with open(fp, 'rb') as fh:
                head = fh.read(6)
            if head[:4] != b'\x7fELF':
                continue
            try:
                rd = I.Rd(open(fp, 'rb').read())
            except Exception:  # noqa
                continue
            if any(p_['p_type'] == I.PT_DYNAMIC for p_ in rd.phdrs()):
                out.append(d + '/' + f)
    return out


def run_corpus(ctx, case):
    path = os.path.join(core.REPO, case['file'])
    data = open(path, 'rb').read()
    rd = I.Rd(data)
    ph = rd.phdrs()
    pd = [p for p in ph if p['p_type'] == I.PT_DYNAMIC][0]
    ctx.count('corpus.files')
    if pd['p_filesz'] == 0 or pd['p_offset'] + pd['p_filesz'] > len(data):
        ctx.count('corpus.skip.dynamic-without-file-bytes')
        ctx.case(case['file'], False)
        return
    ents = rd.dyn(pd['p_offset'], pd['p_filesz'])
    if ents is None:
        ctx.count('corpus.skip.no-terminator')
        ctx.case(case['file'], False)
        return
    M = rd.M
    first = {}
    for t, v in ents:
        first.setdefault(t, v)
    # self-consistency precondition
    sh = rd.shdrs()
    dynsec = [i for i, s in enumerate(sh) if s['sh_type'] == I.SHT_DYNAMIC and s['sh_offset'] == pd['p_offset']]
    stroff = rd.v2o(first[I.DT_STRTAB]) if first.get(I.DT_STRTAB) else None
    symoff = rd.v2o(first[I.DT_SYMTAB]) if first.get(I.DT_SYMTAB) else None
    have_sections = False
    true_n = None
    if dynsec:
        link = sh[dynsec[0]]['sh_link']
        ok = link < len(sh) and sh[link]['sh_type'] == I.SHT_STRTAB and stroff == sh[link]['sh_offset']
        dsym = [s for s in sh if s['sh_type'] == I.SHT_DYNSYM]
        if ok and symoff is not None:
            ok = len(dsym) == 1 and dsym[0]['sh_offset'] == symoff and dsym[0]['sh_entsize'] == W.SYM_SIZE[rd.cls]
            if ok:
                true_n = dsym[0]['sh_size'] // W.SYM_SIZE[rd.cls]
        if not ok:
            ctx.count('corpus.excluded.precondition')
            ctx.count('corpus.excluded.precondition:' + os.path.basename(case['file']))
            ctx.case(case['file'], False)
            return
        have_sections = True
    if stroff is None:
        ctx.count('corpus.skip.no-mapped-DT_STRTAB')
        ctx.case(case['file'], False)
        return

    def string_at(o):
        b = rd.cstr(stroff + o)
        return None if b is None else b.decode('utf-8')
    solaris = rd.osabi == I.OSABI_SOLARIS and rd.machine not in MACH_KEY
    tags = []
    try:
        for t, v in ents:
            attr = STR_TAGS.get(t)
            if attr is None and solaris and t == I.DT_SUNW_FILTER:
                attr = 'sunw_filter'
            tags.append((t, v, attr, string_at(v) if attr else None))
    except UnicodeDecodeError:
        ctx.count('corpus.skip.non-utf8-string')
        ctx.case(case['file'], False)
        return
    X = {'tags': tags, 'table': expected_tag_table(rd.machine, rd.osabi), 'M': M}
    X['table_offset'] = {q: {(first.get(QNAMES[q]), rd.v2o(first[QNAMES[q]]) if first.get(QNAMES[q]) else None)} for q in PTR_QUERIES}
    for q in PTR_QUERIES:
        vals = [v for t, v in ents if t == QNAMES[q]]
        if vals and vals[-1] != vals[0]:
            X['table_offset'][q].add((vals[-1], rd.v2o(vals[-1]) if vals[-1] else None))
    # relocation tables
    rel = {}
    mips64 = rd.machine == I.EM_MIPS and rd.cls == 64
    for k, (ta, ts, te) in REL_GROUPS.items():
        if ta not in first:
            continue
        if ts not in first or te not in first:
            rel = None      # incomplete group: outside the domain
            break
        o = rd.v2o(first[ta]) if first[ta] else None
        size = first[ts]
        if k == 'RELR':
            words = [] if not size else list(struct.unpack_from(rd.e + ('%dI' if rd.cls == 32 else '%dQ') % (size // rd.ws), data, o))
            rel[k] = [(None, [(x,) for x in I.relr_decode(words, rd.ws)])]
            continue
        rela = k == 'RELA' or (k == 'JMPREL' and first[te] == I.DT_RELA)
        out, pos = [], 0
        esz = rd.ws * (3 if rela else 2)
        while o is not None and pos + esz <= size:
            (ro, sym, typ, add, info), nbytes = rd.rel(o + pos, rela, mips64)
            if mips64:
                ssym, t3, t2 = struct.unpack_from('BBB', data, o + pos + 12)
                info = (sym << 32) | (ssym << 24) | (t3 << 16) | (t2 << 8) | typ
            out.append((ro, sym, typ, add, info))
            pos += nbytes
        rel[k] = [(rela, out)]
    X['relocs'] = rel if rel is not None else {}
    # symbols
    syms = []
    hash_n = None
    if I.DT_HASH in first and rd.v2o(first[I.DT_HASH]) is not None and rd.machine not in (0x9026, 22):   # alpha / s390x use 8-byte words
        hash_n = struct.unpack_from(rd.e + 'II', data, rd.v2o(first[I.DT_HASH]))[1]
    gnu = None
    if I.DT_GNU_HASH in first and rd.v2o(first[I.DT_GNU_HASH]) is not None:
        go = rd.v2o(first[I.DT_GNU_HASH])
        nb, so, bs, shf = struct.unpack_from(rd.e + 'IIII', data, go)
        buckets = struct.unpack_from(rd.e + '%dI' % nb, data, go + 16 + bs * rd.ws)
        gnu = {'nbuckets': nb, 'symoffset': so, 'hashed': any(buckets)}
    if true_n is None and hash_n is not None:
        true_n = hash_n
    n_cmp = true_n if (true_n is not None and symoff is not None) else 0
    try:
        for i in range(n_cmp):
            s = rd.sym(symoff + i * W.SYM_SIZE[rd.cls])
            s['name'] = string_at(s['st_name'])
            syms.append(s)
    except UnicodeDecodeError:
        ctx.count('corpus.skip.non-utf8-string')
        ctx.case(case['file'], False)
        return
    X['syms'] = syms
    X['hashkind'] = 'both' if hash_n is not None and gnu else ('sysv' if hash_n is not None else ('gnu' if gnu else 'none'))
    X['hashnote'] = 'sysv nchain=%r; gnu=%r; .dynsym header count=%r' % (hash_n, gnu, true_n)
    if symoff is None or true_n is None:
        X['count_rule'] = 'none'
    else:
        higher = [v for t, v in ents if v > first[I.DT_SYMTAB]]
        heur = ((min(higher) - first[I.DT_SYMTAB]) // W.SYM_SIZE[rd.cls]) if higher else None
        X['count_rule'] = count_rule(true_n, hash_n is not None, gnu is not None, bool(gnu) and not gnu['hashed'],
                                     gnu['symoffset'] if gnu else None, heur)
        X['hashnote'] += '; next-pointer estimate=%r' % heur
    names = [s['name'] for s in syms]
    # names borne by several symbols first (versioned libraries define foo@V1 and foo@@V2), the absent name last: a look-up that misses may
    # make the object build what later look-ups use
    dups = [nm for nm in dict.fromkeys(names) if nm and names.count(nm) > 1]
    queries = list(dict.fromkeys(dups[:3] + names[-3:] + names[:3] + ['zz_absent_symbol']))
    containers = {'stripped': I.strip_headers(data, rd.cls, rd.le)}
    if have_sections:
        containers['full'] = data
    F = Fails()
    dyn = open_views(ctx, case, F, containers, dynsec[0] if have_sections else None)
    obs = {}
    for v in sorted(dyn):
        obs[v] = observe(dyn[v], v.startswith('seg.'), len(tags), len(syms), queries, X['count_rule'] not in ('none', 'ld-empty|unrecoverable'),
                         first_use=(len(tags) + len(v)) % 5, ctx=ctx)
        if rel is None:
            obs[v]['relocs'] = {}
        check_view(F, v, obs[v], X, v.startswith('seg.'))
    exp_views = ['sec.full', 'seg.full', 'seg.stripped'] if have_sections else ['seg.stripped']
    views = [v for v in exp_views if v in obs]
    if len(views) >= 2:
        metamorphic(F, obs, views, X['count_rule'])
    F.flush(ctx, case, exp_views)
    ctx.count('corpus.compared')
    ctx.count('corpus.views', len(views))
    ctx.count('corpus.count_rule.%s' % X['count_rule'])
    if not have_sections:
        ctx.count('corpus.no-section-view')
    nstr = sum(1 for t in tags if t[2])
    ctx.case(data, len(views) >= 2 and nstr >= 1 and len(syms) >= 2,
             {'corpus': case['file'], 'views': views, 'ntags': len(tags), 'nsyms': len(syms), 'hash': X['hashkind'], 'count_rule': X['count_rule']})


def run_case(ctx, case):
    if case.get('k') == 'corpus':
        run_corpus(ctx, case)
    else:
        run_img(ctx, case)


# ---------------------------------------------------------------------------
# generator

SYM_NAMES = ['main', 'printf', '_start', '__gmon_start__', 'ab', 'bA', 'ac', 'bB', 'é', 'λx', '中文名字', 'sym_with_a_rather_long_name_' * 2,
             'f', 'g0', 'g1', 'g2', 'environ', '_ITM_deregisterTMCloneTable', 'x', 'y_y',
             # strings beyond every plausible read size (mangled C++ names, Nix / Spack run paths): 4095, 4096, 4097 and 20 000 bytes
             '_ZN' + 'q' * 4092, '_ZN' + 'r' * 4093, '_ZN' + 's' * 4094, '_ZN4' + 'tu' * 10000]
LIB_NAMES = ['libc.so.6', 'libm.so.6', 'libfoo.so.1', '$ORIGIN/../lib', '/usr/lib:/opt/lib', 'libé.so', 'ld-linux.so.2', 'libdl.so.2',
             '/a/very/long/run/path/' * 4, 'z', '/nix/store/' + 'p' * 4084, '/nix/store/' + 'q' * 4085, ':'.join('/opt/spack/%04d/lib' % i for i in range(400))]
VAL_TAGS = [30, 0x6ffffffb, 24, 16, 22, 0x6ffffff9, 0x6ffffffa, 0x6fffffff, 0x6ffffffd, 27, 28, 33, 0x6ffffdf8, 0x6ffffdf6, 0x6ffffdf7]
PTR_TAGS = [3, 12, 13, 25, 26, 32, 0x6ffffff0, 0x6ffffffe, 0x6ffffffc, 0x6ffffef6, 0x6ffffef7, 0x6ffffeff]
MIPS_TAGS = list(range(0x70000001, 0x70000017)) + [0x70000035, 0x70000036, 0x70000029, 0x70000030]
AARCH64_TAGS = [0x70000001, 0x70000003, 0x70000005, 0x70000009]
SOLARIS_TAGS = list(range(0x6000000d, 0x60000020))
ODD_TAGS = [31, 38, 39, 0x35, 0x12345, 0x6000000e, 0x60000013, 0x6fff1234, 0x70000000, 0x70000001, 0x70000006, 0x70000035, 0x7ffffffd,
            0x7fffffff, 0x6000000d, 0x6000000f, 0x6ffff000, 0x6ffffd00]
DECOY_PT = [0x6474e552, 0x6474e550, 0x6474e551, 7, 4, 0, 0x70000001, 0x60000000]
VBASE32 = [0x10000, 0x400000, 0x08048000, 0x7f000000, 0xf0000000]
VBASE64 = VBASE32 + [0x100000000, 0x7fff00000000, 0xffffffff80000000]


def build_case(ch, tier, force=None):
    f = force or {}
    cls = f.get('cls') or ch.choice([32, 64])
    le = f['le'] if 'le' in f else ch.bool()
    ws = cls // 8
    flavor = f.get('flavor') or ch.choice(['generic', 'generic', 'generic', 'mips', 'aarch64', 'solaris'])
    osabi = 0
    if flavor == 'generic':
        machine = ch.choice([62 if cls == 64 else 3, 40, 21, 243, 2])
        osabi = ch.choice([0, 0, 3, 9])
    elif flavor == 'mips':
        machine = 10 if (cls == 32 and ch.bool(0.15)) else 8
        osabi = ch.choice([0, 0, 0, 6, 3])      # the processor-specific range is named by the machine whatever the OS ABI says
    elif flavor == 'aarch64':
        machine = 183
        osabi = ch.choice([0, 0, 0, 6, 3])
    else:
        machine = ch.choice([3, 62, 2, 43])
        osabi = 6
    case = {'k': 'img', 'cls': cls, 'le': le, 'machine': machine, 'osabi': osabi, 'etype': ch.choice([3, 3, 2])}
    # symbols
    n = f.get('nsyms') or ch.choice([1, 2, 3, 4, 6, ch.int(2, 24 if tier == 'quick' else 60)])
    names = [''] + [ch.choice(SYM_NAMES) if ch.bool(0.8) else ch.choice(SYM_NAMES) + str(ch.int(0, 9)) for _ in range(n - 1)]
    hk = f.get('hash') or ch.choice(['sysv', 'gnu', 'both', 'both', 'neither'])
    gnu = None
    if hk in ('gnu', 'both'):
        form = f.get('gnu_form') or ('ld-empty' if ch.bool(0.12) else 'std')
        if form == 'ld-empty':
            gnu = {'form': 'ld-empty', 'symoffset': 1, 'nbuckets': 1, 'bloom_size': 1, 'bloom_shift': 0}
        else:
            symoffset = ch.choice([1, 1, n, ch.int(1, n)])
            nbuckets = f.get('nbuckets') or ch.choice([1, 2, 3, 7, ch.int(1, 16)])
            head, tail = names[:symoffset], names[symoffset:]
            tail.sort(key=lambda nm: W.gnu_hash(nm.encode('utf-8')) % nbuckets)
            if ch.bool(0.3):
                # the symbols of one bucket must be adjacent; the order of the bucket groups is free (linkers emit them ascending)
                groups = {}
                for nm in tail:
                    groups.setdefault(W.gnu_hash(nm.encode('utf-8')) % nbuckets, []).append(nm)
                keys = ch.perm(sorted(groups))
                tail = [nm for k in keys for nm in groups[k]]
            names = head + tail
            gnu = {'form': 'std', 'symoffset': symoffset, 'nbuckets': nbuckets, 'bloom_size': ch.choice([1, 2, 4, 8]),
                   'bloom_shift': ch.choice([0, 5, 6, 26, 31])}
    case['gnu'] = gnu
    case['sysv'] = {'nbucket': ch.choice([1, 2, 3, 17, ch.int(1, 32)])} if hk in ('sysv', 'both') else None
    syms = []
    for i, nm in enumerate(names):
        if i == 0:
            syms.append({'name': '', 'value': 0, 'size': 0, 'info': 0, 'other': 0, 'shndx': 0})
        else:
            syms.append({'name': nm, 'value': ch.word(cls), 'size': ch.word(cls), 'info': ch.choice([0x10, 0x11, 0x12, 0x20, 0x22, 0x1a, ch.int(0, 255)]),
                         'other': ch.choice([0, 1, 2, 3, ch.int(0, 255)]), 'shndx': ch.choice([0, 0, 1, 5, 0xfff1, 0xfff2, 0xff00, ch.int(0, 0xffff)])})
    case['syms'] = syms
    # relocation tables
    mips64 = machine == 8 and cls == 64

    def rel_ents(k, rela):
        out = []
        for _ in range(k):
            typ = ch.choice([1, 2, 6, 7, 8, 37, 0x101, 1027, ch.int(0, 0xffffffff)])
            e = [ch.word(cls), ch.choice([0, 1, n - 1, ch.int(0, 0xffffff)]), typ & (0xff if cls == 32 else 0xffffffff)]
            if rela:
                e.append(ch.choice([0, 1, -1, -(1 << (cls - 1)), (1 << (cls - 1)) - 1, ch.int(-0x10000, 0x10000)]))
            out.append(e)
        return out
    want = f.get('relocs')
    has = lambda k, p: (k in want) if want is not None else ch.bool(p)   # noqa
    case['rel'] = rel_ents(ch.choice([0, 1, 2, 5]), False) if has('rel', 0.4) else None
    case['rela'] = rel_ents(ch.choice([0, 1, 3, 5]), True) if has('rela', 0.5) else None
    if has('jmprel', 0.5):
        jr = ch.bool()
        case['jmprel'] = {'rela': jr, 'ents': rel_ents(ch.choice([0, 1, 2, 4]), jr)}
    else:
        case['jmprel'] = None
    if has('relr', 0.35):
        words, a = [], 0x10000 + ws * ch.int(0, 64)
        for _ in range(ch.choice([0, 1, 2, 5])):
            if not words or ch.bool(0.5):
                a += ws * ch.int(1, 200)
                words.append(a)
            else:
                words.append((ch.word(cls) | 1) & ((1 << cls) - 1))
        case['relr'] = words
    else:
        case['relr'] = None
    case['rel2'] = None
    dupkind = None
    if (f.get('dup_group') or (want is None and ch.bool(0.15))) and (case['rel'] is not None or case['rela'] is not None):
        dupkind = 'rela' if case['rela'] is not None and (case['rel'] is None or ch.bool()) else 'rel'
        case['rel2'] = {'rela': dupkind == 'rela', 'ents': rel_ents(ch.int(1, 3), dupkind == 'rela')}
    # tags
    symsize = W.SYM_SIZE[cls]
    tags = [[5, ['addr', 'strtab', 0]], [6, ['addr', 'dynsym', 0]], [10, ['size', 'strtab']], [11, symsize]]
    if case['sysv']:
        tags.append([4, ['addr', 'hash', 0]])
    if gnu:
        tags.append([I.DT_GNU_HASH, ['addr', 'gnuhash', 0]])
    if case['rel'] is not None:
        tags += [[17, ['addr', 'rel', 0]], [18, ['size', 'rel']], [19, 2 * ws]]
    if case['rela'] is not None:
        tags += [[7, ['addr', 'rela', 0]], [8, ['size', 'rela']], [9, 3 * ws]]
    if case['jmprel'] is not None:
        tags += [[23, ['addr', 'jmprel', 0]], [2, ['size', 'jmprel']], [20, 7 if case['jmprel']['rela'] else 17]]
    if case['relr'] is not None:
        tags += [[36, ['addr', 'relr', 0]], [35, ['size', 'relr']], [37, ws]]
    strtags = []
    for _ in range(ch.choice([0, 1, 1, 2, 4])):
        nm = ch.choice(LIB_NAMES)
        if ch.bool(0.15) and len(nm) > 3 and nm.isascii():
            strtags.append([1, ['str', nm, ch.int(1, len(nm) - 1)]])
        else:
            strtags.append([1, ['str', nm]])
    for t, p in ((14, 0.6), (15, 0.4), (29, 0.4)):
        if ch.bool(p):
            strtags.append([t, ['str', ch.choice(LIB_NAMES + [''])]])
    if flavor == 'solaris':
        if ch.bool(0.7):
            strtags.append([I.DT_SUNW_FILTER, ['str', ch.choice(LIB_NAMES)]])
        if ch.bool(0.3):
            strtags.append([0x6000000d, ['str', ch.choice(LIB_NAMES)]])
    if ch.bool(0.2):
        strtags.append([ch.choice([0x7ffffffd, 0x7fffffff]), ['str', ch.choice(LIB_NAMES)]])
    if f.get('strings') and not strtags:
        strtags.append([1, ['str', 'libc.so.6']])
    tags += strtags
    dlen = 24
    for _ in range(ch.int(0, 5)):
        if ch.bool():
            tags.append([ch.choice(VAL_TAGS), ch.word(cls)])
        else:
            tags.append([ch.choice(PTR_TAGS), ['addr', 'data', ch.int(0, dlen - 1)]])
    if ch.bool(0.3):
        tags.append([21, 0])
    spec = {'mips': MIPS_TAGS, 'aarch64': AARCH64_TAGS, 'solaris': SOLARIS_TAGS}.get(flavor)
    if spec:
        for _ in range(ch.int(1, 4)):
            t = ch.choice(spec)
            if t != I.DT_SUNW_FILTER:
                tags.append([t, ch.word(cls)])
    for _ in range(ch.choice([0, 0, 1, 3])):
        t = ch.choice(ODD_TAGS + ([1 << 40, (1 << 63) - 1, -1, -2, 0x80000000] if cls == 64 else [-1, -2, 0x7ffffffe]))
        if flavor == 'solaris' and t == I.DT_SUNW_FILTER:
            continue
        tags.append([t, ch.word(cls)])
    # harmless duplicates: same tag, same value
    for _ in range(ch.choice([0, 0, 1, 2])):
        tags.append(list(ch.choice(tags)))
    # pointer into the zero-filled part of a load
    bss = f.get('bss') if 'bss' in f else ch.bool(0.5)
    if bss:
        free = [t for t in (3, 12, 13, 25, 26) if t not in [x[0] for x in tags]]
        if free:
            tags.append([ch.choice(free), ['bss', ch.int(0, 3), ch.choice([0, 1, 8, 31])]])
        else:
            bss = False
    if f.get('edge') or ch.bool(0.5):
        free = [t for t in (3, 12, 13, 25, 26) if t not in [x[0] for x in tags]]
        for t in free[:ch.int(1, 2)]:
            tags.append([t, ['edge', ch.int(0, 3), ch.choice(['first', 'last'])]])
    tags = ch.perm(tags)
    if case['rel2'] is not None:
        ta, ts = (7, 8) if dupkind == 'rela' else (17, 18)
        tags.insert(ch.int(0, len(tags)), [ta, ['addr', 'rel2', 0]])
        tags.insert(ch.int(0, len(tags)), [ts, ['size', 'rel2']])
        # pair the occurrences: first address with first size, last with last; never the same section at both ends
        ia = [i for i, t in enumerate(tags) if t[0] == ta and isinstance(t[1], list)]
        isz = [i for i, t in enumerate(tags) if t[0] == ts and isinstance(t[1], list)]
        keys = ch.perm([dupkind, 'rel2'])
        for i, k in zip((ia[0], ia[-1]), keys):
            tags[i] = [ta, ['addr', k, 0]]
        for i, k in zip((isz[0], isz[-1]), keys):
            tags[i] = [ts, ['size', k]]
        for i in ia[1:-1]:
            tags[i] = [ta, ['addr', keys[0], 0]]
        for i in isz[1:-1]:
            tags[i] = [ts, ['size', keys[0]]]
    if gnu and (gnu['form'] == 'ld-empty' or gnu['symoffset'] >= n) and case['sysv'] is None and (f.get('next_exact') or ch.bool(0.6)):
        # GNU ld layout: the string table starts where .dynsym ends, so DT_STRTAB is the next pointer (arranged through `order` below)
        case['ld_layout'] = True
    case['tags'] = tags
    case['null_val'] = ch.choice([0, 0, 0, ch.word(cls)])
    after = []
    if f.get('after') or ch.bool(0.5):
        for _ in range(ch.int(1, 4)):
            after.append(ch.choice([[1, ['str', ch.choice(LIB_NAMES)]], [14, ['str', 'after.so']], [5, ['addr', 'data', 0]], [6, ['addr', 'data', 8]],
                                    [4, ['addr', 'data', 0]], [I.DT_GNU_HASH, ['addr', 'data', 4]], [0, 0], [0, 7], [17, ['addr', 'data', 0]],
                                    [18, 16], [23, ['addr', 'data', 0]], [7, ['addr', 'data', 0]], [36, ['addr', 'data', 0]], [30, 0xff],
                                    [1, 1 << 30], [15, 0x7fffffff]]))
    case['after'] = after
    case['strs'] = [ch.choice(LIB_NAMES + SYM_NAMES) for _ in range(ch.int(0, 3))]
    case['share_suffix'] = ch.bool(0.3)
    case['decoy'] = f['decoy'] if 'decoy' in f else ch.bool(0.5)
    case['filler'] = ch.bytes(dlen)
    # asked in a drawn order (a look-up that misses first may make the object build what later look-ups use, round 8), names borne by
    # several symbols always among them
    allnames = [s['name'] for s in syms]
    dups = sorted({nm for nm in allnames if allnames.count(nm) > 1})
    case['queries'] = ch.perm(sorted(set(allnames[:4] + dups[:4] + [ch.choice(SYM_NAMES), 'zz_absent'])))
    # layout
    chunks = I.chunk_ids(case)
    order = ch.perm(chunks) if ch.bool(0.6) else list(chunks)
    if case.get('ld_layout'):
        order.remove(1)
        order.insert(order.index(2) + 1, 1)
    case['order'] = order
    gaps = {str(c): ch.choice([1, 4, 8, 0x40, ch.int(0, 0x200)]) for c in chunks if ch.bool(0.3)}
    if case.get('ld_layout'):
        gaps.pop('1', None)
    case['gaps'] = gaps
    nload = f.get('nload') or ch.choice([1, 2, 2, 3, 4])
    secpos = [i for i, c in enumerate(order) if isinstance(c, int)]
    cuts = []
    if nload > 1:
        cand = secpos[1:]
        if case.get('ld_layout'):
            cand = [p for p in cand if order[p] != 1]
        if f.get('nload'):
            step = max(1, len(cand) // nload)
            cuts = [cand[min(len(cand) - 1, step * (k + 1) - 1)] for k in range(nload - 1)]
        else:
            cuts = sorted(set(ch.choice(cand) for _ in range(nload - 1)))
    case['cuts'] = cuts
    case['vmode'] = ch.choice(['page', 'page', 'page', 'low'])
    case['vbase'] = ch.choice(VBASE32 if cls == 32 else VBASE64) if case['vmode'] == 'page' else ch.choice([0x10, 0x40, 0x1230])
    case['vperm'] = ch.perm(list(range(len(cuts) + 1)))
    extra = [ch.choice([0, 0, 0x20, 0x1000]) for _ in range(len(cuts) + 1)]
    if bss:
        extra = [max(e, 0x20) for e in extra]
    case['mem_extra'] = extra
    xs = []
    if ch.bool(0.6):
        keys = ['strtab', 'dynsym', 'hash', 'gnuhash', 'rel', 'rela', 'jmprel', 'relr', 'dynamic']
        for _ in range(ch.int(1, 2)):
            xs.append({'p_type': ch.choice(DECOY_PT), 'at': ch.choice(keys), 'src': ch.choice(['data', 'dyncopy', 'strtab', 'dynsym']),
                       'pos': ch.int(0, 4), 'back': ch.choice([0, 0, 8]), 'more': ch.choice([0, 16])})
    if ch.bool(0.2):
        xs.append({'bss_only': True, 'p_type': 1, 'at': 'strtab', 'src': 'strtab'})
    case['xsegs'] = xs
    case['dyn_pos'] = ch.int(0, 4)
    case['phentsize_extra'] = ch.choice([0, 0, 8])
    case['tail'] = ch.choice([0, 0, 9])
    return case


strategy = composite_from(build_case)


def tag_sweep_case(cls, le, flavor, seed):
    """an image whose tag sequence contains every tag number of the library table of the machine/OS and of the registries"""
    ch = RndChooser(seed)
    case = build_case(ch, 'quick', {'cls': cls, 'le': le, 'flavor': flavor, 'hash': 'both', 'gnu_form': 'std', 'relocs': (), 'nsyms': 3,
                                    'nload': 2, 'strings': True, 'bss': False, 'after': True})
    present = set(t[0] for t in case['tags'])
    E = lib()['E']
    vals = set()
    for tab in (E.ENUM_D_TAG_COMMON, E.ENUM_D_TAG_SOLARIS, E.ENUM_D_TAG_MIPS, E.ENUM_D_TAG_AARCH64):
        vals |= set(v for v in tab.values() if isinstance(v, int))
    for name, vs in REG.elf_names().items():
        if name.startswith('DT_'):
            vals |= set(v for v in vs if 0 <= v < (1 << 31))
    semantic = {0, 1, 14, 15, 29, 5, 6, 10, 11, 4, I.DT_GNU_HASH, 17, 18, 19, 7, 8, 9, 23, 2, 20, 36, 35, 37}
    if flavor == 'solaris':
        semantic.add(I.DT_SUNW_FILTER)
    extra = []
    for v in sorted(vals):
        if v in semantic or v in present:
            continue
        extra.append([v, (v * 2654435761) & 0xffffffff])
        if v + 1 not in vals and v + 1 not in semantic:
            extra.append([v + 1, v])
    for t in (14, 15, 29):
        if t not in present:
            extra.append([t, ['str', 'libfoo.so.1']])
    if flavor == 'solaris' and I.DT_SUNW_FILTER not in present:
        extra.append([I.DT_SUNW_FILTER, ['str', 'libfilter.so']])
    case['tags'] = case['tags'] + extra
    return case


def sweep(tier):
    cases = []
    k = 0
    for cls in (32, 64):
        for le in (True, False):
            for flavor in ('generic', 'mips', 'aarch64', 'solaris'):
                k += 1
                cases.append(tag_sweep_case(cls, le, flavor, 9000 + k))
                for hi, hk in enumerate(('sysv', 'gnu', 'both', 'neither')):
                    for nload in (1, 2, 3, 4):
                        k += 1
                        ch = RndChooser(9000 + k)
                        cases.append(build_case(ch, tier, {'cls': cls, 'le': le, 'flavor': flavor, 'hash': hk, 'nload': nload, 'strings': True,
                                                           'gnu_form': 'std', 'relocs': ('rel', 'rela', 'jmprel', 'relr')[:(nload + hi) % 5],
                                                           'nsyms': 2 + (k % 7), 'after': nload % 2 == 0, 'decoy': k % 2 == 0, 'edge': True,
                                                           'dup_group': (nload + hi) % 5 in (2, 3) and nload == 3}))
            # the GNU ld "empty" table: with DT_HASH, alone with the GNU ld layout, alone without
            for j, fo in enumerate(({'hash': 'both'}, {'hash': 'gnu', 'next_exact': True}, {'hash': 'gnu'})):
                k += 1
                cases.append(build_case(RndChooser(9000 + k), tier, dict(fo, cls=cls, le=le, flavor='generic', gnu_form='ld-empty', nsyms=4 + j,
                                                                         strings=True)))
            # chains far longer than any linker makes them (one or two buckets for 70..260 symbols): a walk that reads the chain in blocks
            # crosses several block boundaries
            for j, (ns, nb) in enumerate(((70, 1), (131, 1), (260, 2))):
                k += 1
                cases.append(build_case(RndChooser(9000 + k), tier, {'cls': cls, 'le': le, 'flavor': 'generic', 'hash': ('gnu', 'both', 'gnu')[j], 'gnu_form': 'std',
                                                                     'nsyms': ns, 'nbuckets': nb, 'strings': True, 'relocs': ()}))
    for f in corpus_files():
        cases.append({'k': 'corpus', 'file': f})
    return cases


def floors(ctx):
    c = ctx.counters
    need = ['cell.32le', 'cell.32be', 'cell.64le', 'cell.64be', 'hash.sysv', 'hash.gnu', 'hash.both', 'hash.none', 'nload.1', 'nload.2', 'nload.3',
            'nload.4', 'flavor.generic', 'flavor.mips', 'flavor.aarch64', 'flavor.solaris', 'str.needed', 'str.soname', 'str.rpath', 'str.runpath',
            'str.sunw_filter', 'tags.after-null', 'tags.duplicates', 'tags.duplicated-reloc-group', 'reloc.REL', 'reloc.RELA', 'reloc.JMPREL',
            'reloc.RELR', 'decoy-dynstr', 'decoy-segments', 'pointer-into-zero-filled', 'pointer-to-first-byte-of-load', 'pointer-to-last-byte-of-load', 'count_rule.exact', 'count_rule.none',
            'count_rule.ld-empty|DT_HASH-present', 'count_rule.ld-empty|gnu-only|next-pointer-exact', 'corpus.compared',
            'corpus.excluded.precondition']
    out = ['no case of class ' + k for k in need if c[k] == 0]
    if c['corpus.compared'] < 30:
        out.append('only %d shipped dynamic files compared' % c['corpus.compared'])
    if c['views'] < 5 * (c['cell.32le'] + c['cell.32be'] + c['cell.64le'] + c['cell.64be']) * 0.9:
        out.append('fewer than 90%% of the container views could be opened (%d)' % c['views'])
    return out


def evidence_extra(ctx):
    c = ctx.counters
    return {'corpus': {k: v for k, v in sorted(c.items()) if k.startswith('corpus.')},
            'gnu_ld_empty_table': {k: v for k, v in sorted(c.items()) if k.startswith('count_rule.') or k.startswith('corpus.count_rule.')}}

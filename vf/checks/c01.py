"""C01 - ELF file, section and program headers are decoded exactly as encoded."""
import io
import zlib

from vf import usage, streams
from vf.enc import elf as W
from vf import registry
from vf.choose import RndChooser, composite_from

ID = 'C01'
RULE = ('ELF models (class x byte order x e_machine incl. the table-switching machines x OSABI x arbitrary header '
        'field values x 0..40 sections / 0..20 segments (thorough sweep: real extended numbering >=0xff00 sections, '
        '>=0xffff segments) x table placement/order/gaps x oversized entry sizes x forced extended-numbering escapes) '
        'are written by an independent struct.pack writer and decoded through ELFFile; every header field, name, class '
        'and lookup is compared with the model. Non-trivial: >=2 sections and >=1 segment and at least one of: MSB, '
        'oversized entry, non-canonical table order, extended numbering, a machine-switched or unknown type code. '
        'Distinct by SHA-1 of the encoded file.')
N = {'quick': 3000, 'thorough': 100000}
ASSUMPTIONS = ['writer vf/enc/elf.py emits gABI-conformant structures (refereed by readelf in vf.selfcheck)',
               'sh_flags SHF_COMPRESSED kept clear (C02 domain); section index 0 is all-zero apart from escapes',
               'names reported for codes the registries do not know are checked against the library table of the expected machine only']

M_ARM, M_AARCH64, M_X64, M_MIPS, M_RISCV, M_386 = 40, 183, 62, 8, 243, 3
SWITCHING = (M_ARM, M_AARCH64, M_X64, M_MIPS, M_RISCV)
MACH_TOKENS = {M_ARM: ('_ARM_',), M_AARCH64: ('_AARCH64_',), M_X64: ('_AMD64_', '_X86_64_'), M_MIPS: ('_MIPS_',),
               M_RISCV: ('_RISCV_',)}

# codes that MUST be reported by name (hand-written from gABI 4.1 / psABIs)
MUST_SHT = set(range(0, 12)) | set(range(14, 20)) | {0x6ffffff6, 0x6ffffffd, 0x6ffffffe, 0x6fffffff}
MUST_SHT_M = {M_ARM: {0x70000001, 0x70000002, 0x70000003, 0x70000004}, M_AARCH64: {0x70000003}, M_X64: {0x70000001},
              M_MIPS: {0x70000006, 0x7000000d, 0x7000001e, 0x7000002a}, M_RISCV: {0x70000003}}
MUST_PT = set(range(0, 8)) | {0x6474e550, 0x6474e551, 0x6474e552, 0x6474e553}
MUST_PT_M = {M_ARM: {0x70000000, 0x70000001}, M_AARCH64: {0x70000000, 0x70000001}, M_MIPS: {0x70000003},
             M_RISCV: {0x70000003}}
MUST_ET = {0, 1, 2, 3, 4}
MUST_EM = {0, 3, 8, 20, 21, 22, 40, 62, 183, 243, 258}
MUST_OSABI = {0, 3, 6, 9}
MUST_EV = {0, 1}

SHT_SPECIAL = {3: 'StringTableSection', 0: 'NullSection', 2: 'SymbolTableSection', 11: 'SymbolTableSection',
               0x6ffffff3: 'SymbolTableSection', 18: 'SymbolTableIndexSection', 0x6ffffffc: 'SUNWSyminfoTableSection',
               0x6ffffffe: 'GNUVerNeedSection', 0x6ffffffd: 'GNUVerDefSection', 0x6fffffff: 'GNUVerSymSection',
               9: 'RelocationSection', 4: 'RelocationSection', 19: 'RelrRelocationSection', 6: 'DynamicSection',
               7: 'NoteSection', 5: 'ELFHashSection', 0x6ffffff6: 'GNUHashSection'}
PT_SPECIAL = {3: 'InterpSegment', 2: 'DynamicSegment', 4: 'NoteSegment'}
NEED_STRTAB = {2, 11, 0x6ffffff3, 0x6ffffffe, 0x6ffffffd, 6}
NEED_SYMTAB = {0x6ffffffc, 0x6fffffff, 5, 0x6ffffff6}


def expected_section_class(sh_type, machine, name):
    if sh_type == 1 and name == '.stab':
        return 'StabSection'
    if sh_type == 0x70000003 and machine == M_ARM:
        return 'ARMAttributesSection'
    if sh_type == 0x70000003 and machine == M_RISCV:
        return 'RISCVAttributesSection'
    return SHT_SPECIAL.get(sh_type, 'Section')


_cache = {}


def tables():
    if not _cache:
        from elftools.elf import enums as E
        from elftools.elf.elffile import ELFFile
        from elftools.common.exceptions import ELFError
        _cache['ELFFile'] = ELFFile
        _cache['ELFError'] = ELFError
        sht = {}
        for d in (E.ENUM_SH_TYPE_BASE, E.ENUM_SH_TYPE_ARM, E.ENUM_SH_TYPE_AARCH64, E.ENUM_SH_TYPE_AMD64,
                  E.ENUM_SH_TYPE_MIPS, E.ENUM_SH_TYPE_RISCV):
            sht.update({k: v for k, v in d.items() if isinstance(v, int)})
        pt = {}
        for d in (E.ENUM_P_TYPE_BASE, E.ENUM_P_TYPE_ARM, E.ENUM_P_TYPE_AARCH64, E.ENUM_P_TYPE_MIPS, E.ENUM_P_TYPE_RISCV):
            pt.update({k: v for k, v in d.items() if isinstance(v, int)})
        _cache['lib'] = {
            'sh_type': sht, 'p_type': pt,
            'e_type': {k: v for k, v in E.ENUM_E_TYPE.items() if isinstance(v, int)},
            'e_machine': {k: v for k, v in E.ENUM_E_MACHINE.items() if isinstance(v, int)},
            'e_version': {k: v for k, v in E.ENUM_E_VERSION.items() if isinstance(v, int)},
            'osabi': {k: v for k, v in E.ENUM_EI_OSABI.items() if isinstance(v, int)},
        }
        _cache['reg'] = registry.elf_names()
        em = sorted({v for k, vs in _cache['reg'].items() if k.startswith('EM_') for v in vs if 0 <= v < 0x10000})
        _cache['em_values'] = em
        _cache['sht_values'] = sorted(set(sht.values()))
        _cache['pt_values'] = sorted(set(pt.values()))
    return _cache


PREFIX = {'sh_type': ('SHT_',), 'p_type': ('PT_',), 'e_type': ('ET_',), 'e_machine': ('EM_',), 'e_version': ('EV_',),
          'osabi': ('ELFOSABI_',)}


def check_code(ctx, kind, got, enc, machine, must, case, where):
    T = tables()
    if isinstance(got, int) and not isinstance(got, bool):
        if got != enc:
            ctx.fail('%s|raw-int-differs' % kind, '%s: encoded %#x reported %#x' % (where, enc, got), case)
        elif enc in must:
            ctx.fail('%s|standard-code-not-named|%#x' % (kind, enc), '%s: code %#x has a standard name but is reported raw' % (where, enc), case)
        return
    if not isinstance(got, str):
        ctx.fail('%s|bad-type' % kind, '%s: %r' % (where, got), case)
        return
    if not got.startswith(PREFIX[kind]):
        ctx.fail('%s|wrong-namespace' % kind, '%s: encoded %#x reported %r' % (where, enc, got), case)
        return
    vals = T['reg'].get(got)
    if vals:
        ok = enc in vals
    else:
        ok = T['lib'][kind].get(got) == enc
    if not ok:
        ctx.fail('%s|name-for-other-code' % kind, '%s: encoded %#x reported as %r (registry %s)' % (where, enc, got, sorted(vals or [])), case)
        return
    if kind in ('sh_type', 'p_type') and 0x70000000 <= enc <= 0x7fffffff:
        for mach, toks in MACH_TOKENS.items():
            if mach != machine and any(t in got for t in toks) and not any(t in got for t in MACH_TOKENS.get(machine, ())):
                ctx.fail('%s|other-machine-table' % kind, '%s: e_machine=%d code %#x reported as %r' % (where, machine, enc, got), case)
                return


def _hdr_cmp(ctx, prefix, got_hdr, exp, fields, case, where, machine=None, typefield=None, must=None):
    for f in fields:
        try:
            g = got_hdr[f]
        except Exception as e:  # noqa
            ctx.fail('%s|missing-field|%s' % (prefix, f), '%s: %r' % (where, e), case)
            continue
        if f == typefield:
            check_code(ctx, typefield, g, exp[f], machine, must, case, where)
        elif g != exp[f]:
            ctx.fail('%s|field|%s' % (prefix, f), '%s: %s encoded %#x decoded %r' % (where, f, exp[f], g), case)


def sample_indices(n, full):
    if full or n <= 400:
        return range(n)
    s = set(range(0, 60)) | set(range(n - 60, n)) | set(range(0, n, 97)) | set(range(0xfef8, 0xff10)) | set(range(0xfff8, 0x10010))
    return sorted(i for i in s if 0 <= i < n)


def run_far(ctx, case):
    """header tables and sections at offsets at and beyond 2**31 / 2**32 / 2**62 (sparse file)"""
    from vf.enc.sparse import sparse_elf
    T = tables()
    cls, le, base = case['cls'], case['le'], case['base']
    secs = [{'name': '.text', 'sh_type': 1, 'sh_flags': 6, 'sh_addr': 0x1000, 'offset': base, 'size': 0x20, 'sh_addralign': 16},
            {'name': '.strtab', 'sh_type': 3, 'offset': base + 0x100, 'size': 1, 'chunks': {0: b'\0'}},
            {'name': '.symtab', 'sh_type': 2, 'sh_link': 2, 'sh_entsize': W.SYM_SIZE[cls], 'offset': base + 0x200, 'size': 0},
            {'name': '.big', 'sh_type': 8, 'sh_flags': 3, 'sh_addr': (1 << (cls - 1)) + 8, 'offset': base + 0x300, 'size': (1 << (cls - 1)) + 5}]
    segs = [{'p_type': 1, 'p_flags': 5, 'p_offset': base, 'p_vaddr': 0x1000, 'p_paddr': 0x1000, 'p_filesz': 0x20, 'p_memsz': (1 << (cls - 1)) + 1, 'p_align': 0x1000},
            {'p_type': 0x6474e551, 'p_flags': 6, 'p_offset': (1 << cls) - 1, 'p_vaddr': (1 << cls) - 1, 'p_paddr': 0, 'p_filesz': 0, 'p_memsz': 0, 'p_align': 16}]
    stream, hdrs = sparse_elf(cls, le, secs, segments=segs, shoff=base + 0x1000)
    names = [''] + [x['name'] for x in secs] + ['.shstrtab']
    tag = 'far|base=%#x' % base
    try:
        ef = T['ELFFile'](stream)
        if ef['e_shoff'] != base + 0x1000 or ef.num_sections() != len(hdrs) or ef.num_segments() != 2:
            ctx.fail(tag + '|counts', 'e_shoff %#x sections %d segments %d' % (ef['e_shoff'], ef.num_sections(), ef.num_segments()), case)
        for i, (h, nm) in enumerate(zip(hdrs, names)):
            sec = ef.get_section(i)
            got = {k: sec[k] for k in W.SH_FIELDS if k != 'sh_type'}
            if got != {k: h[k] for k in W.SH_FIELDS if k != 'sh_type'} or sec.name != nm:
                ctx.fail(tag + '|section', 'section[%d]: encoded %r / %r, decoded %r / %r' % (i, h, nm, dict(sec.header), sec.name), case)
            if ef.get_section_by_name(nm) is None or ef.get_section_index(nm) != i:
                ctx.fail(tag + '|lookup', 'name %r' % nm, case)
        for j, p in enumerate(segs):
            seg = ef.get_segment(j)
            got = {k: seg[k] for k in W.PH_FIELDS if k != 'p_type'}
            if got != {k: p[k] for k in W.PH_FIELDS if k != 'p_type'}:
                ctx.fail(tag + '|segment', 'segment[%d]: encoded %r decoded %r' % (j, p, dict(seg.header)), case)
        if [x.name for x in ef.iter_sections()] != names:
            ctx.fail(tag + '|iter_sections', 'names differ', case)
    except Exception as e:  # noqa
        ctx.fail_exc(tag, e, case)
    ctx.count('far.files')
    ctx.case(('far', cls, le, base), True, dict(case))


def run_case(ctx, case):
    if case.get('far'):
        return run_far(ctx, case)
    T = tables()
    ELFFile, ELFError = T['ELFFile'], T['ELFError']
    m = case
    try:
        data, R = W.build(m)
    except Exception as e:  # generator/writer bug -> harness error
        raise
    machine = m.get('e_machine', 62)
    valid = not m.get('invalid_links')
    st0, skind = streams.pick(data) if len(data) < (4 << 20) else (io.BytesIO(data), 'bytesio')   # BytesIO, minimal object, memory map or real file
    ctx.count('stream.' + skind)
    try:
        ef = ELFFile(st0)
    except ELFError as e:
        if valid:
            ctx.fail_exc('open' if R['shnum'] else 'open|no-section-header-table', e, case)
        _register(ctx, m, R, data)
        return
    except Exception as e:  # noqa
        ctx.fail_exc('open' if R['shnum'] else 'open|no-section-header-table', e, case)
        _register(ctx, m, R, data)
        return

    def guard(what, fn, allow_elferror=False):
        # allow_elferror: the model deliberately carries invalid links (outside the property's
        # 'well-formed' domain): any exception is tolerated there, only a wrong *result* is not.
        try:
            return True, fn()
        except ELFError as e:
            if not allow_elferror:
                ctx.fail_exc(what, e, case)
            return False, None
        except Exception as e:  # noqa
            if not allow_elferror:
                ctx.fail_exc(what, e, case)
            return False, None

    # --- file header
    eh = R['eh']
    h = ef.header
    if ef.elfclass != m['cls']:
        ctx.fail('ehdr|elfclass', 'got %r' % ef.elfclass, case)
    if ef.little_endian != m['le']:
        ctx.fail('ehdr|little_endian', 'got %r' % ef.little_endian, case)
    if ef.e_ident_raw != R['ident']:
        ctx.fail('ehdr|e_ident_raw', 'got %r' % ef.e_ident_raw, case)
    idn = h['e_ident']
    if list(idn['EI_MAG']) != [0x7f, 0x45, 0x4c, 0x46]:
        ctx.fail('ehdr|EI_MAG', repr(idn['EI_MAG']), case)
    if idn['EI_CLASS'] != ('ELFCLASS32' if m['cls'] == 32 else 'ELFCLASS64'):
        ctx.fail('ehdr|EI_CLASS', repr(idn['EI_CLASS']), case)
    if idn['EI_DATA'] != ('ELFDATA2LSB' if m['le'] else 'ELFDATA2MSB'):
        ctx.fail('ehdr|EI_DATA', repr(idn['EI_DATA']), case)
    check_code(ctx, 'e_version', idn['EI_VERSION'], m.get('ei_version', 1) & 0xff, machine, MUST_EV, case, 'EI_VERSION')
    check_code(ctx, 'osabi', idn['EI_OSABI'], m.get('osabi', 0), machine, MUST_OSABI, case, 'EI_OSABI')
    if idn['EI_ABIVERSION'] != m.get('abiver', 0):
        ctx.fail('ehdr|EI_ABIVERSION', repr(idn['EI_ABIVERSION']), case)
    check_code(ctx, 'e_type', h['e_type'], eh['e_type'], machine, MUST_ET, case, 'e_type')
    check_code(ctx, 'e_machine', h['e_machine'], eh['e_machine'], machine, MUST_EM, case, 'e_machine')
    check_code(ctx, 'e_version', h['e_version'], eh['e_version'], machine, MUST_EV, case, 'e_version')
    for f in ('e_entry', 'e_phoff', 'e_shoff', 'e_flags', 'e_ehsize', 'e_phentsize', 'e_phnum', 'e_shentsize', 'e_shnum', 'e_shstrndx'):
        if h[f] != eh[f]:
            ctx.fail('ehdr|field|%s' % f, 'encoded %#x decoded %r' % (eh[f], h[f]), case)

    # --- sections
    nsec = R['shnum']
    full = m.get('full_compare', True)
    ok, n = guard('num_sections', ef.num_sections)
    if ok and n != nsec:
        ctx.fail('num_sections', 'encoded %d reported %r (e_shnum=%d)' % (nsec, n, eh['e_shnum']), case)
    must_sht = MUST_SHT | MUST_SHT_M.get(machine, set())
    has_names = m.get('shstrndx') is not None   # no name table => names are not defined by the file
    all_ok = True
    idxs = sample_indices(nsec, full)
    seen = {}
    for i in idxs:
        exp = R['sh'][i]
        ok, sec = guard('get_section', lambda: ef.get_section(i), allow_elferror=not valid)
        if not ok:
            all_ok = False
            continue
        where = 'section[%d]' % i
        _hdr_cmp(ctx, 'shdr', sec.header, exp, W.SH_FIELDS, case, where, machine, 'sh_type', must_sht)
        if has_names and sec.name != R['names'][i]:
            ctx.fail('section|name', '%s: encoded %r decoded %r' % (where, R['names'][i], sec.name), case)
        cls_exp = expected_section_class(exp['sh_type'], machine, R['names'][i])
        if type(sec).__name__ != cls_exp:
            ctx.fail('section|class|%s' % cls_exp, '%s: sh_type %#x name %r -> %s, expected %s' % (
                where, exp['sh_type'], R['names'][i], type(sec).__name__, cls_exp), case)
        seen[i] = sec
    if nsec and len(idxs) == nsec and has_names:
        ok, lst = guard('iter_sections', lambda: list(ef.iter_sections()), allow_elferror=not (valid and all_ok))
        if ok:
            if len(lst) != nsec:
                ctx.fail('iter_sections|count', 'encoded %d yielded %d' % (nsec, len(lst)), case)
            else:
                for i, sec in enumerate(lst):
                    if i in seen and (sec.name != seen[i].name or dict(sec.header) != dict(seen[i].header) or type(sec) is not type(seen[i])):
                        ctx.fail('iter_sections|order', 'position %d differs from get_section(%d)' % (i, i), case)
                        break
        # lookups
        names = R['names']
        groups = {}
        for i, nm in enumerate(names):
            groups.setdefault(nm, []).append(i)
        probe = list(groups)[:12] + ['.absent-name', '']
        # names that no section bears although their bytes occur in the name table: tails, heads and extensions of real names
        for nm in list(groups)[:6]:
            for q in (nm[1:], nm[2:], nm[:-1], nm + 'x', nm + '\0'[:0] + '.'):
                if q and q not in groups and q not in probe:
                    probe.append(q)
                    ctx.count('lookup.absent-but-substring-of-a-real-name')
        for nm in probe:
            present = nm in groups
            ok, idx = guard('get_section_index', lambda: ef.get_section_index(nm), allow_elferror=not (valid and all_ok))
            if not ok:
                break
            if present:
                if idx not in groups[nm]:
                    ctx.fail('lookup|get_section_index', 'name %r -> %r, sections with that name %r' % (nm, idx, groups[nm]), case)
            elif idx is not None:
                ctx.fail('lookup|get_section_index|absent', 'name %r -> %r' % (nm, idx), case)
            ok, hs = guard('has_section', lambda: ef.has_section(nm), allow_elferror=not (valid and all_ok))
            if ok and bool(hs) != present:
                ctx.fail('lookup|has_section', 'name %r -> %r' % (nm, hs), case)
            ok, sec = guard('get_section_by_name', lambda: ef.get_section_by_name(nm), allow_elferror=not (valid and all_ok))
            if ok:
                if present:
                    if sec is None:
                        ctx.fail('lookup|get_section_by_name|none', 'name %r' % nm, case)
                    elif not any(dict(sec.header) == dict(seen[i].header) and sec.name == nm for i in groups[nm] if i in seen):
                        ctx.fail('lookup|get_section_by_name|wrong', 'name %r' % nm, case)
                elif sec is not None:
                    ctx.fail('lookup|get_section_by_name|absent', 'name %r -> %r' % (nm, sec), case)

    # --- a name look-up interrupted by a read error the caller catches (vf/streams.py FaultOnce) may be repeated: the repetition answers
    # from the whole table
    if nsec >= 3 and all_ok and valid and has_names and nsec <= 60 and zlib.crc32(data) % 3 == 0:
        try:
            fst = streams.FaultOnce(data)
            ef2 = ELFFile(fst)
            fst.arm(2 + zlib.crc32(data) // 3 % (3 * nsec))
            try:
                ef2.get_section_by_name(R['names'][nsec - 1])
            except Exception:  # noqa
                pass
            fst.disarm()
            if fst.faults:
                ctx.count('transient-fault.lookup-interrupted')
                for i in sorted(set(range(nsec)) - {0})[:12]:
                    nm = R['names'][i]
                    want = [k for k in range(nsec) if R['names'][k] == nm]
                    got = ef2.get_section_index(nm)
                    if got not in want or ef2.get_section_by_name(nm) is None:
                        ctx.fail('lookup|repeated-after-a-failed-attempt', 'name %r is borne by section(s) %r; after a look-up that a read error interrupted get_section_index answers %r' % (nm, want, got), case)
                        break
        except Exception as e:  # noqa
            ctx.fail_exc('lookup|repeated-after-a-failed-attempt', e, case)
    # --- the enumerations consumed step by step while the stream is moved and a nested enumeration runs between two steps
    if nsec and len(idxs) == nsec and all_ok and valid and has_names and nsec <= 60:
        try:
            stepped = usage.stepwise(ef.iter_sections, usage.disturber(ef.stream, ef.iter_sections, (lambda: ef.get_section_by_name('.text'), ef.num_segments)))
            if [(x.name, dict(x.header)) for x in stepped] != [(seen[i].name, dict(seen[i].header)) for i in range(nsec)]:
                ctx.fail('iter_sections|interleaved-with-other-stream-use', '%d sections; a step-by-step walk with other stream users in between yields %d (or different ones)' % (nsec, len(stepped)), case)
            stepped = usage.stepwise(ef.iter_segments, usage.disturber(ef.stream, ef.iter_segments, (ef.num_sections,)))
            if len(stepped) != R['phnum'] or any(dict(x.header)['p_offset'] != R['ph'][j]['p_offset'] for j, x in enumerate(stepped)):
                ctx.fail('iter_segments|interleaved-with-other-stream-use', '%d segments; a step-by-step walk yields %d (or different ones)' % (R['phnum'], len(stepped)), case)
            ctx.count('stepwise.enumerations')
        except Exception as e:  # noqa
            if not m.get('invalid_links'):
                ctx.fail_exc('iter|interleaved-with-other-stream-use', e, case)
    # --- type filters of the enumerations (only where every section constructs)
    if nsec and len(idxs) == nsec and all_ok and valid:
        by_type = {}
        for i, sec in seen.items():
            t = sec['sh_type']
            if isinstance(t, str):
                by_type.setdefault(t, []).append(i)
        for t in sorted(by_type)[:4] + ['SHT_NO_SUCH_TYPE']:
            ok, lst = guard('iter_sections(type)', lambda: list(ef.iter_sections(type=t)))
            if ok:
                got_idx = [next((i for i in by_type.get(t, []) if dict(seen[i].header) == dict(sec.header) and seen[i].name == sec.name), None) for sec in lst]
                if len(lst) != len(by_type.get(t, [])) or None in got_idx or sorted(got_idx) != got_idx and len(set(R['names'][i] for i in by_type.get(t, []))) == len(by_type.get(t, [])):
                    ctx.fail('iter_sections|type-filter', 'type %s: model indices %r, filter yielded %d sections' % (t, by_type.get(t, []), len(lst)), case)
        ctx.count('filter.sections')

    # --- segments
    nseg = R['phnum']
    ok, n = guard('num_segments', ef.num_segments)
    if ok and n != nseg:
        ctx.fail('num_segments', 'encoded %d reported %r (e_phnum=%d)' % (nseg, n, eh['e_phnum']), case)
    must_pt = MUST_PT | MUST_PT_M.get(machine, set())
    jdxs = sample_indices(nseg, full)
    segseen = {}
    seg_ok = True
    for j in jdxs:
        exp = R['ph'][j]
        ok, seg = guard('get_segment', lambda: ef.get_segment(j), allow_elferror=not valid)
        if not ok:
            seg_ok = False
            continue
        where = 'segment[%d]' % j
        _hdr_cmp(ctx, 'phdr', seg.header, exp, W.PH_FIELDS, case, where, machine, 'p_type', must_pt)
        cls_exp = PT_SPECIAL.get(exp['p_type'], 'Segment')
        if type(seg).__name__ != cls_exp:
            ctx.fail('segment|class|%s' % cls_exp, '%s: p_type %#x -> %s' % (where, exp['p_type'], type(seg).__name__), case)
        segseen[j] = seg
    if nseg and len(jdxs) == nseg:
        ok, lst = guard('iter_segments', lambda: list(ef.iter_segments()), allow_elferror=not (valid and seg_ok))
        if ok:
            if len(lst) != nseg:
                ctx.fail('iter_segments|count', 'encoded %d yielded %d' % (nseg, len(lst)), case)
            else:
                for j, seg in enumerate(lst):
                    if j in segseen and (dict(seg.header) != dict(segseen[j].header) or type(seg) is not type(segseen[j])):
                        ctx.fail('iter_segments|order', 'position %d differs from get_segment(%d)' % (j, j), case)
                        break
    if nseg and len(jdxs) == nseg and seg_ok:
        by_type = {}
        for j, seg in segseen.items():
            t = seg['p_type']
            if isinstance(t, str):
                by_type.setdefault(t, []).append(j)
        for t in sorted(by_type)[:3] + sorted(by_type)[-5:] + ['PT_NO_SUCH_TYPE']:
            ok, lst = guard('iter_segments(type)', lambda: list(ef.iter_segments(type=t)), allow_elferror=not valid)
            if ok and [dict(x.header) for x in lst] != [dict(segseen[j].header) for j in by_type.get(t, [])]:
                ctx.fail('iter_segments|type-filter', 'type %s: model indices %r, filter yielded %d segments' % (t, by_type.get(t, []), len(lst)), case)
        ctx.count('filter.segments')
    # --- another file opened meanwhile must not change what this object reports (per-file decoding state)
    if (seen or segseen) and valid:
        other = SWITCHING[(SWITCHING.index(machine) + 1 + len(data) % (len(SWITCHING) - 1)) % len(SWITCHING)] if machine in SWITCHING else SWITCHING[len(data) % len(SWITCHING)]
        idata, _ = W.build({'cls': m['cls'], 'le': m['le'], 'e_machine': other, 'e_type': 2, 'shstrndx': 2,
                            'sections': [{'name': '', 'sh_type': 0}, {'name': '.p', 'sh_type': 0x70000001, 'data': b''}, {'name': '.shstrtab', 'sh_type': 3, 'data': b''}],
                            'segments': [{'p_type': 0x70000001, 'p_offset': 0, 'p_filesz': 0, 'p_memsz': 0}]})
        ok, _x = guard('isolation|open-other', lambda: [ELFFile(io.BytesIO(idata)).get_section(1)['sh_type'], ELFFile(io.BytesIO(idata)).get_segment(0)['p_type']])
        for i in list(seen)[:40]:
            ok, sec = guard('isolation|get_section', lambda: ef.get_section(i))
            if ok and (dict(sec.header) != dict(seen[i].header) or sec.name != seen[i].name or type(sec) is not type(seen[i])):
                ctx.fail('isolation|other-open-file|section', 'section[%d] (sh_type %#x, machine %#x) read %r/%s before and %r/%s after a machine-%#x file was opened' % (
                    i, R['sh'][i]['sh_type'], machine, seen[i]['sh_type'], type(seen[i]).__name__, sec['sh_type'], type(sec).__name__, other), case)
                break
        for j in list(segseen)[:40]:
            ok, seg = guard('isolation|get_segment', lambda: ef.get_segment(j))
            if ok and (dict(seg.header) != dict(segseen[j].header) or type(seg) is not type(segseen[j])):
                ctx.fail('isolation|other-open-file|segment', 'segment[%d] (p_type %#x, machine %#x) read %r before and %r after a machine-%#x file was opened' % (
                    j, R['ph'][j]['p_type'], machine, segseen[j]['p_type'], seg['p_type'], other), case)
                break
        ctx.count('isolation.checked')
    # --- a copy of the object (ELFStructs implements the pickle protocol; copy / pickle / multiprocessing rebuild it from its state)
    #     decodes exactly like the original
    if (seen or segseen) and valid and skind == 'bytesio':          # only in-memory streams can be copied
        import copy
        import pickle
        try:
            st2 = pickle.loads(pickle.dumps(ef.structs))
            for attr in ('little_endian', 'elfclass', 'e_type', 'e_machine', 'e_ident_osabi'):
                if getattr(st2, attr, None) != getattr(ef.structs, attr, None):
                    ctx.fail('copy|structs-state|%s' % attr, 'original %r, after a pickle round trip %r' % (getattr(ef.structs, attr, None), getattr(st2, attr, None)), case)
            ef3 = copy.deepcopy(ef)
            for i in list(seen)[:40]:
                sec = ef3.get_section(i)
                if dict(sec.header) != dict(seen[i].header) or sec.name != seen[i].name or type(sec) is not type(seen[i]):
                    ctx.fail('copy|deepcopy|section', 'section[%d] (sh_type %#x, machine %#x): original reads %r/%s, its deep copy %r/%s' % (
                        i, R['sh'][i]['sh_type'], machine, seen[i]['sh_type'], type(seen[i]).__name__, sec['sh_type'], type(sec).__name__), case)
                    break
            for j in list(segseen)[:40]:
                seg = ef3.get_segment(j)
                if dict(seg.header) != dict(segseen[j].header) or type(seg) is not type(segseen[j]):
                    ctx.fail('copy|deepcopy|segment', 'segment[%d] (p_type %#x, machine %#x): original reads %r, its deep copy %r' % (
                        j, R['ph'][j]['p_type'], machine, segseen[j]['p_type'], seg['p_type']), case)
                    break
            if dict(ef3.header) != dict(ef.header) and repr(ef3.header) != repr(ef.header):
                ctx.fail('copy|deepcopy|header', 'file header of the deep copy differs', case)
            ctx.count('copy.checked')
        except Exception as e:  # noqa
            ctx.fail_exc('copy', e, case)
    _register(ctx, m, R, data)


def _register(ctx, m, R, data):
    nsec, nseg = R['shnum'], R['phnum']
    machine = m.get('e_machine', 62)
    default_order = (m.get('order') in (None, [])) or list(m.get('order')) == ['ph'] + [c for c in m.get('order') if isinstance(c, int)] + ['sh']
    switched = any(0x70000000 <= h['sh_type'] <= 0x7fffffff for h in R['sh']) or any(0x70000000 <= p['p_type'] <= 0x7fffffff for p in R['ph'])
    unknown = any(h['sh_type'] not in tables()['sht_values'] for h in R['sh']) or any(p['p_type'] not in tables()['pt_values'] for p in R['ph'])
    ext = R['eh']['e_shnum'] == 0 and nsec > 0 or R['eh']['e_phnum'] == 0xffff or R['eh']['e_shstrndx'] == 0xffff
    feats = {'msb': not m['le'], 'oversized': bool(m.get('shentsize_extra') or m.get('phentsize_extra')),
             'reordered': not default_order, 'extnum': bool(ext), 'switched': switched, 'unknown_code': unknown}
    nt = nsec >= 2 and nseg >= 1 and any(feats.values())
    for k, v in feats.items():
        if v:
            ctx.count('feat.' + k)
    ctx.count('cell.%d%s' % (m['cls'], 'le' if m['le'] else 'be'))
    ctx.count('machine.%s' % (machine if machine in SWITCHING + (M_386,) else 'other'))
    if m.get('invalid_links'):
        ctx.count('family.invalid_links')
    if nsec >= 0xff00:
        ctx.count('real_ext_sections')
    if nseg >= 0xffff:
        ctx.count('real_ext_segments')
    ctx.case(data, nt, {'cls': m['cls'], 'le': m['le'], 'e_machine': machine, 'nsec': nsec, 'nseg': nseg,
                        'features': sorted(k for k, v in feats.items() if v), 'file_len': len(data),
                        'head_hex': data[:64].hex()})


# ---------------------------------------------------------------------------
# generators

NAME_POOL = ['.text', '.data', '.bss', '.rodata', '.symtab', '.strtab', '.shstrtab', '.dynsym', '.dynstr', '.rela.text',
             '.rel.dyn', '.note.gnu.build-id', '.stab', '.stab', '.debug_info', '.a', 'a', '.ARM.attributes',
             # neighbours of the one name that selects a class (.stab): longer, shorter, other case, other prefix - plain sections all
             '.stable', '.stab_like', '.stabilizer.rodata', '.sta', '.STAB', 'x.stab', '.stabs', '.stabstr',
             '.gnu.version', '.comment', '.text.startup', 'startup', 'été', '.中文', 'x' * 70, '.init_array', '',
             # names beyond every plausible read size (-ffunction-sections with mangled C++ names): 4095, 4096, 4097 and 70 000 bytes
             '.text._ZN' + 'a' * 4086, '.text._ZN' + 'b' * 4087, '.text._ZN' + 'c' * 4088, '.text.' + 'long_' * 14000]


def _sym_bytes(cls, le, n):
    return b''.join(W.enc_sym(cls, le, 0, i * 16, 4, 0x12, 0, 1) for i in range(n))


def make_special(ch, cls, le, typ, machine, name, strtabs, symtabs):
    """Return section dict with a minimal VALID payload for the type's specialised class."""
    s = {}
    if typ in (2, 11, 0x6ffffff3):
        n = ch.int(0, 3)
        s.update(data=_sym_bytes(cls, le, n), sh_entsize=W.SYM_SIZE[cls], sh_link=ch.choice(strtabs))
    elif typ in (0x6ffffffe, 0x6ffffffd, 6):
        s.update(sh_link=ch.choice(strtabs))
        if typ == 6:
            s.update(data=W.enc_dyn(cls, le, 0, 0))
    elif typ in NEED_SYMTAB:
        s.update(sh_link=ch.choice(symtabs))
        if typ == 5:
            s.update(data=W.enc_sysv_hash(le, [b''], 1))
        elif typ == 0x6ffffff6:
            s.update(data=W.enc_gnu_hash(cls, le, [b''], 1, 1, 1, 5))
    elif typ in (9, 4):
        s.update(sh_entsize=(8 if typ == 9 else 12) if cls == 32 else (16 if typ == 9 else 24))
    elif typ == 19:
        s.update(sh_entsize=cls // 8)
    elif typ == 0x70000003 and machine in (M_ARM, M_RISCV):
        s.update(data=b'A')
    return s


def build_model(ch, tier, sweep_types=None):
    T = tables()
    cls = ch.choice([32, 64])
    le = ch.bool()
    mk = ch.int(0, 9)
    if mk <= 5:
        machine = ch.choice(list(SWITCHING) + [M_386])
    elif mk <= 8:
        machine = ch.choice(T['em_values'])
    else:
        machine = ch.choice([0x1234, 0xfffe, 0xffff, 0x7fff])
    m = {'cls': cls, 'le': le, 'e_machine': machine,
         'osabi': ch.choice([0, 0, 3, 6, 9, 64, 97, 255, ch.int(0, 255)]),
         'abiver': ch.int(0, 255), 'ei_version': ch.choice([1, 1, 1, 0, ch.int(0, 255)]),
         'ident_pad': ch.choice([b'\0' * 7, ch.bytes(7)]),
         'e_type': ch.choice([0, 1, 2, 3, 4, 5, 0xfe00, 0xfeff, 0xff00, 0xff01, 0xffff, ch.int(0, 0xffff)]),
         'e_version': ch.choice([1, 1, 0, 2, ch.word(32)]),
         'e_entry': ch.word(cls), 'e_flags': ch.word(32),
         'e_ehsize': ch.choice([W.EHDR_SIZE[cls], W.EHDR_SIZE[cls], ch.int(0, 0xffff)]),
         'shentsize_extra': ch.choice([0, 0, 0, 1, 8, 24]), 'phentsize_extra': ch.choice([0, 0, 0, 1, 8, 24])}
    return fill_sections(ch, tier, m, sweep_types)


def pick_sht(ch, machine):
    T = tables()
    k = ch.int(0, 9)
    if k <= 4:
        return ch.choice(T['sht_values'])
    if k <= 6:
        return ch.choice([1, 1, 8, 3, 7])
    if k == 7:
        return ch.choice([0x70000000, 0x70000001, 0x70000002, 0x70000003, 0x70000004, 0x70000006, 0x7000002a, 0x7000001e])
    return ch.choice([12, 13, 20, 21, 0x5fffffff, 0x60000001, 0x6fff4700, 0x7fffffff, 0x80000001, 0xfffffffe, ch.int(0x60000000, 0xffffffff)])


def pick_pt(ch):
    T = tables()
    k = ch.int(0, 9)
    if k <= 5:
        return ch.choice(T['pt_values'])
    if k <= 7:
        return ch.choice([0x70000000, 0x70000001, 0x70000002, 0x70000003])
    return ch.choice([8, 9, 0x5fffffff, 0x60000001, 0x6474e554, 0x6ffffffa, 0x7fffffff, 0x80000000, 0xffffffff, ch.int(0, 0xffffffff)])


def fill_sections(ch, tier, m, sweep_types=None, sweep_ptypes=None):
    cls, le, machine = m['cls'], m['le'], m['e_machine']
    if sweep_types is not None:
        types = [0] + list(sweep_types)
    else:
        nsec = ch.choice([0, 1, 2, 3, 5, 8, ch.int(0, 40)])
        types = [0] + [pick_sht(ch, machine) for _ in range(max(nsec - 1, 0))] if nsec else []
    invalid = sweep_types is None and ch.int(0, 9) == 0
    secs = []
    if types:
        nsec = len(types)
        # ensure a name table exists; put it at a random index >= 1 (or have none at all, rarely)
        have_str = nsec >= 2 and (sweep_types is not None or ch.int(0, 19) != 0)
        shstr = ch.int(1, nsec - 1) if have_str else None
        if have_str:
            types[shstr] = 3
        strtabs = [i for i, t in enumerate(types) if t == 3]
        # symbol tables need a string table to be constructible; without one they are downgraded below, so nothing may link to them
        symcand = [i for i, t in enumerate(types) if t in (2, 11)] if strtabs else []
        for i, t in enumerate(types):
            if i == 0:
                secs.append({'name': '', 'sh_type': 0})
                continue
            name = ch.choice(NAME_POOL) if have_str else ''
            if sweep_types is not None and i != shstr:
                name = '.s%d' % i if i % 7 else ch.choice(NAME_POOL)
            s = {'name': name, 'sh_type': t,
                 'sh_flags': ch.word(cls) & ~0x800, 'sh_addr': ch.word(cls), 'sh_link': ch.word(32), 'sh_info': ch.word(32),
                 'sh_addralign': ch.word(cls), 'sh_entsize': ch.word(cls)}
            if i == shstr:
                s['name'] = ch.choice(['.shstrtab', '.strtab', ''])
                s['data'] = b''
                secs.append(s)
                continue
            special = (t in SHT_SPECIAL and t not in (0, 3, 18, 7)) or (t == 0x70000003 and machine in (M_ARM, M_RISCV))
            if special and not invalid:
                if (t in NEED_STRTAB and not strtabs) or (t in NEED_SYMTAB and not symcand):
                    s['sh_type'] = 1
                    types[i] = 1
                else:
                    s.update(make_special(ch, cls, le, t, machine, name, strtabs, symcand))
            if 'data' not in s:
                if ch.bool(0.6):
                    s['data'] = ch.bytes(0, 24)
                    if s['sh_type'] == 0x70000003 and machine in (M_ARM, M_RISCV) and not invalid:
                        s['data'] = b'A' + s['data']
                else:
                    s['data'] = None
                    s['sh_offset'] = ch.word(cls)
                    s['sh_size'] = ch.word(cls)
                    if s['sh_type'] in (2, 11, 0x6ffffff3) and not invalid:
                        s['sh_size'] = 0
            secs.append(s)
        # symtab sections referenced by others must themselves be constructible: fix their links
        m['shstrndx'] = shstr
    m['sections'] = secs
    m['invalid_links'] = bool(invalid and types)
    # segments
    if sweep_ptypes is not None:
        ptypes = list(sweep_ptypes)
    else:
        nseg = ch.choice([0, 1, 2, 3, ch.int(0, 20)])
        ptypes = [pick_pt(ch) for _ in range(nseg)]
    m['segments'] = [{'p_type': t, 'p_flags': ch.word(32), 'p_offset': ch.word(cls), 'p_vaddr': ch.word(cls),
                      'p_paddr': ch.word(cls), 'p_filesz': ch.word(cls), 'p_memsz': ch.word(cls), 'p_align': ch.word(cls)}
                     for t in ptypes]
    # layout
    chunks = (['ph'] if ptypes else []) + [i for i, s in enumerate(secs) if s.get('data') is not None] + (['sh'] if secs else [])
    if ch.bool(0.6):
        m['order'] = ch.perm(chunks)
    m['gaps'] = {str(c): ch.choice([0, 0, 1, 3, 8, 17]) for c in chunks if ch.bool(0.3)}
    m['tail'] = ch.choice([0, 0, 5, 64])
    m['share_suffix'] = ch.bool(0.3)
    if secs:
        m['xnum'] = {'sh': ch.int(0, 7) == 0, 'ph': ch.int(0, 7) == 0, 'str': m.get('shstrndx') is not None and ch.int(0, 7) == 0}
    return m


strategy = composite_from(build_model)


def sweep(tier):
    T = tables()
    cases = []
    all_sht = sorted(set(T['sht_values']) | {0x70000000 + k for k in range(0, 0x2c)} | {12, 13, 20, 21, 0x60000001, 0x7fffffff, 0x80000001, 0xfffffffe})
    all_pt = sorted(set(T['pt_values']) | {0x70000000, 0x70000001, 0x70000002, 0x70000003, 8, 0x60000001, 0x6474e554, 0x7fffffff, 0xffffffff})
    seed = 0
    for cls in (32, 64):
        for le in (True, False):
            for machine in SWITCHING + (M_386, 21):
                seed += 1
                ch = RndChooser(1000 + seed)
                m = {'cls': cls, 'le': le, 'e_machine': machine, 'osabi': 0, 'e_type': 2,
                     'shentsize_extra': (seed % 3) * 8, 'phentsize_extra': (seed % 2) * 8}
                # symtab early so that symtab-linked types are constructible
                types = [3, 2] + [t for t in all_sht if t not in (0,)]
                cases.append(fill_sections(ch, tier, m, sweep_types=types, sweep_ptypes=all_pt))
    # header enumerations: every EM / OSABI / ET code once per cell
    ems = T['em_values'] + [0x1234]
    for k, em in enumerate(ems):
        ch = RndChooser(5000 + k)
        m = {'cls': (32, 64)[k % 2], 'le': bool((k // 2) % 2), 'e_machine': em, 'osabi': k % 256 if k < 256 else 0,
             'e_type': [0, 1, 2, 3, 4, 0xfe00, 0xff00, 0xffff][k % 8], 'e_version': k % 3}
        cases.append(fill_sections(ch, tier, m, sweep_types=[3, 1], sweep_ptypes=[1]))
    # extended numbering, real counts
    def big(nsec, nseg, cls, le, shstr):
        secs = [{'name': '', 'sh_type': 0}]
        for i in range(1, nsec):
            secs.append({'name': 'n%d' % (i % 50), 'sh_type': 1 if i % 3 else 8, 'sh_flags': i & 0x7ff, 'sh_addr': i * 16,
                         'data': None, 'sh_offset': i, 'sh_size': i % 100, 'sh_link': i % 7, 'sh_info': i % 11,
                         'sh_addralign': 1 << (i % 5), 'sh_entsize': i % 9})
        secs[shstr].update(sh_type=3, data=b'', name='.shstrtab')
        # tables that link to one another through indices in and around the range that is reserved only in 16-bit fields
        # (sh_link is a plain 32-bit index): string table <- dynamic symbol table <- version / hash tables
        for base in (0xfefd, 0xff00, 0xffff, 0x10003):
            if base + 4 < nsec and not (base <= shstr <= base + 4):
                secs[base].update(sh_type=3, data=b'\0', name='.dynstr')
                secs[base + 1].update(sh_type=11, sh_link=base, sh_entsize=W.SYM_SIZE[cls], sh_size=0, name='.dynsym')
                secs[base + 2].update(sh_type=0x6fffffff, sh_link=base + 1, sh_size=0, name='.gnu.version')
                secs[base + 3].update(sh_type=5, sh_link=base + 1, data=W.enc_sysv_hash(le, [b''], 1), name='.hash')
                secs[base + 4].update(sh_type=0x6ffffffd, sh_link=base, sh_size=0, name='.gnu.version_d')
        segs = [{'p_type': (1, 4, 0x6474e551, 6)[j % 4], 'p_flags': j % 8, 'p_offset': j, 'p_vaddr': j * 4096 % (1 << 32),
                 'p_paddr': j, 'p_filesz': j % 1000, 'p_memsz': j % 2000, 'p_align': 4096} for j in range(nseg)]
        return {'cls': cls, 'le': le, 'e_machine': 62, 'e_type': 3, 'sections': secs, 'segments': segs, 'shstrndx': shstr,
                'order': ['sh', shstr, 'ph'], 'full_compare': False}
    for k, (cls, base) in enumerate(((32, 0x7ffffff0), (32, 0x80000000), (32, 0xfffe0000), (64, 0x7ffffff0), (64, 0xfffffff8), (64, 1 << 32),
                                     (64, (1 << 47) + 4), (64, (1 << 63) - 0x100000))):
        cases.append({'far': True, 'cls': cls, 'le': bool(k % 2), 'base': base})
    cases.append(big(0xff20, 3, 64, True, 0xff20 - 1))
    if tier == 'thorough':
        cases.append(big(0xff00, 3, 64, True, 0xff00 - 1))
        cases.append(big(0x10010, 2, 32, True, 0xffff))
        cases.append(big(0xff01, 0xffff, 32, False, 0xff00))
        cases.append(big(70000, 70001, 64, False, 69999))
        cases.append(big(5, 0xffff, 32, True, 2))
        cases.append(big(0xfeff, 0xfffe, 64, True, 0xfefe))
    else:
        cases.append(big(4, 0xffff, 32, False, 3))
    return cases


def floors(ctx):
    out = []
    c = ctx.counters
    for k in ('far.files', 'cell.32le', 'cell.32be', 'cell.64le', 'cell.64be', 'feat.extnum', 'feat.oversized', 'feat.switched',
              'feat.unknown_code', 'real_ext_sections', 'real_ext_segments', 'family.invalid_links'):
        if c[k] == 0:
            out.append('no case with ' + k)
    return out

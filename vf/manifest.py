"""Regenerates /verif/MANIFEST.json from the table below:  python -m vf.manifest"""
import os
import json

VERIF = os.path.dirname(os.path.dirname(os.path.abspath(__file__)))
PY = '/venv/bin/python'

# id -> (technique, level text, level note, design ref)
CHECKS = {
    'C01': ('Hypothesis-generated ELF models + deterministic type/machine sweep, written by an independent struct.pack writer; round-trip against the model',
            'Exploration: every header field, section/segment order, name, specialised class, machine-switched type name and name/index '
            'lookup of generated images (all class/order cells, table-switching machines, oversized entries, arbitrary table placement, '
            'forced and real (>=0xff00 / >=0xffff) extended numbering) is compared with the model that produced the bytes.',
            'Trusted: the writer vf/enc/elf.py (refereed against readelf), the vendored glibc/LLVM registries for code names, Hypothesis.',
            'DESIGN.md 4/C01'),
    'C02': ('Hypothesis-generated ELF models + boundary sweeps; oracles: file slice / independent zlib framing / NUL scan / PT_LOAD containment / transcription of binutils ELF_SECTION_IN_SEGMENT_STRICT over a geometry decision table',
            'Exploration: section data (raw, NOBITS, SHF_COMPRESSED with consistent and inconsistent Elf_Chdr), string lookups across the 64-byte '
            'read chunk and at EOF, segment data and interpreter strings, address_offsets on boundary ranges, and section_in_segment over a '
            'decision table of segment type x section type x flags x size x file/address relation (sampled in quick, complete in thorough) plus random geometry.',
            'Trusted: writer vf/enc/elf.py, zlib as reference inflater, my transcription of the binutils 2.40 macro (vf/ref/insegment.py, refereed against readelf -lW).',
            'DESIGN.md 4/C02'),
    'C03': ('Hypothesis-generated symbol/hash-table models with a collision-built name pool; round-trip against the model + complete/sound lookup oracle',
            'Exploration: every symbol field of generated SYMTAB/DYNSYM/LDYNSYM tables (with SYMTAB_SHNDX and SUNW_syminfo companions), the exact '
            'name->symbols map, and SysV/GNU hash lookups and counts over tables whose names collide in hash value, in hash-up-to-bit-0 and in bucket, '
            'for present, near-miss and absent queries in all four class/order cells.',
            'Trusted: writer vf/enc/elf.py incl. its own SysV/GNU hash functions and table builders; Hypothesis.',
            'DESIGN.md 4/C03'),
    'C04': ('Hypothesis-generated DIE-tree models + every-form x every-cell sweep, written by an independent DWARF encoder; round-trip against the model',
            'Exploration: unit headers, every entry (offset, size, code, tag, child flag), every attribute (name, final form, raw and resolved value, '
            'offset, indirection length), tiling, children/parent relations and reference resolution (unit-relative, ref_addr across units, ref_sig8 to '
            'v4 type units) of generated .debug_info/.debug_types/.debug_abbrev sections with mixed units, in all version x format x address-size x byte-order cells.',
            'Trusted: the encoder vf/enc/dwarf.py (written from DWARF v5 chapter 7), vendored LLVM Dwarf.def for tag/attribute names, Hypothesis.',
            'DESIGN.md 4/C04'),
    'C05': ('Hypothesis-generated line-program models + opcode x cell x header-parameter sweep, independent encoder, reference state machine transcribed from DWARF v5 6.2.5',
            'Exploration: header tables (v2-4 and v5 entry formats) and every emitted row (all 12 registers) of generated programs over all standard, extended '
            '(incl. unknown, length-skipped) and special opcodes with arbitrary opcode_base/line_base/line_range/min_inst/max_ops, several sequences and programs per '
            'section, each reached through a generated CU; decode extent compared with the declared extent.',
            'Trusted: vf/enc/lineprog.py, vf/ref/lineprog.py (my transcription of 6.2.5), vf/enc/dwarf.py for the CUs, Hypothesis.',
            'DESIGN.md 4/C05'),
    'C06': ('Hypothesis-generated .debug_frame/.eh_frame models + opcode x alignment x augmentation x pointer-encoding sweep, independent encoder, reference table interpreter transcribed from DWARF v5 6.4',
            'Exploration: entry list and kinds (CIE/FDE/zero terminator), header fields, augmentation strings/data, pointer-encoded initial location / range / LSDA '
            '(absolute and pc-relative in every basic encoding), CIE links incl. FDE-before-CIE, the instruction split of every DW_CFA opcode, and the decoded table '
            '(rows, CFA rule, register rules, restore to CIE rules, remember/restore state, distinct code/data alignment factors) against the reference interpreter.',
            'Trusted: encoder in vf/checks/c06.py, vf/ref/cfi.py (my transcription of 6.4.2), Hypothesis. 64-bit .eh_frame entries and v4 CIEs with a non-default address size are outside the domain.',
            'DESIGN.md 4/C06'),
    'C07': ('Hypothesis-generated loc/range list sections referenced from generated DIEs + entry-kind x cell sweep, own list encoders; round-trip against the model and an attribute-class table written from DWARF v2-v5',
            'Exploration: v2-4 .debug_loc/.debug_ranges lists (base-selection entries, shared tails, location views) and v5 .debug_loclists/.debug_rnglists blocks '
            '(every DW_LLE/DW_RLE kind, indexed kinds through .debug_addr, offset tables, DWARF32/64, gaps) fetched by attribute, offset and index; section enumeration, '
            'iter_CUs headers, iter_CU_range_lists_ex, translate_v5_entry; expression-vs-list-vs-neither classification over (attribute, form, version) cells.',
            'Trusted: list encoders and the classification table in vf/checks/c07.py, vf/enc/dwarf.py for the DIEs. Cells DWARF v2/v3 leave ambiguous (constant forms on location attributes) are not asserted.',
            'DESIGN.md 4/C07'),
    'C08': ('Hypothesis-generated relocation tables, RELR streams and relocatable objects + recipe sweep, independent encoders; oracle = model, own RELR expander, psABI formulas with type numbers from the psABI documents; vendored clang-14 cross-compiled objects',
            'Exploration: REL/RELA sections and DT_REL/RELA/JMPREL/RELR tables (both classes/orders, MIPS64 packed layout) entry by entry; RELR expansion; byte-for-byte result of '
            'relocating .debug_* sections for every supported (machine, type) pair with boundary symbol values/addends/in-place values at any field offset, relocate on and off; '
            'error paths (unsupported type, wrong flavour, symbol index out of range, unsupported machine, composite MIPS64) must raise ELFRelocationError.',
            'Trusted: recipe table vf/ref/c08_reloc.py (transcribed from the psABIs, refereed against readelf -r/-R and llvm-readelf on generated files), vf/enc/elf.py.',
            'DESIGN.md 4/C08'),
    'C09': ('Hypothesis-generated dynamic images (two-pass layout through an independent writer) in three container variants + stripping transform on the shipped corpus; oracle = model + metamorphic equality of section / segment / stripped-segment views',
            'Exploration: dynamic tags up to and including DT_NULL, string-valued tags through sh_link / DT_STRTAB, d_tag naming per machine/OS table, get_table_offset through '
            'PT_LOADs with p_vaddr != p_offset, dynamic symbols, relocation tables and symbol count recovery (SysV / GNU / both / neither hash) with full section headers, with '
            'headers stripped and with a .dynamic section whose offset differs from PT_DYNAMIC; the same for 47 shipped dynamic files against an independent mini ELF reader.',
            'Trusted: image builder and mini reader in vf/enc/c09_img.py (refereed against readelf -d / -D -s / -D -r), vf/enc/elf.py. Where only a GNU table that hashes nothing exists and no pointer delimits .dynsym the count is not judged.',
            'DESIGN.md 4/C09'),
    'C10': ('model-based history testing: bounded-exhaustive exploration of operation sequences with abstract cache-state hashing + Hypothesis-generated long histories; oracle = the same query on a freshly opened object',
            'Exploration: every query result inside a history (section/symbol access, unit/DIE lookup by offset, parent/children/sibling navigation, reference following, '
            'type units, line programs, CFI and decoded tables, dynamic segment) equals the fresh-object result, with adversarial stream repositioning and suspended generators '
            'interleaved; all sequences up to depth 3 (quick) / 4 (thorough) over fixture alphabets are enumerated, expanding each abstract cache state once; long random '
            'histories on generated and shipped files.',
            'Trusted: the fresh-object run as ground truth (so a defect that shows on a fresh object is invisible here and belongs to C01-C09), canonicalisation in vf/dump.py; '
            'private cache attributes are read only to hash exploration states. Lists of operations are used instead of a RuleBasedStateMachine so that a history is a JSON replay file.',
            'DESIGN.md 4/C10'),
    'C11': ('metamorphic: the same debug payload (corpus-extracted and Hypothesis-generated) wrapped by an independent ELF writer into plain / SHF_COMPRESSED / .zdebug / debuglink / supplementary containers; canonical dumps must coincide and every payload section must reach DWARFInfo byte-identical',
            'Exploration: canonical dumps (units, DIEs with resolved values, line tables, CFI tables, aranges, pubnames) of every container variant equal the plain '
            'container and, for corpus files, the original; section pickup is byte-exact; has_dwarf_info truth table over name subsets x strict; wrong debuglink CRC '
            'and declared!=inflated sizes (both directions, both formats) are rejected; supplementary strings resolve with a loader and stay raw without.',
            'Trusted: container builder in vf/checks/c11.py over vf/enc/elf.py, zlib, the canonical dump in vf/dump.py; corpus payload bytes are read once through the library itself (stated in the evidence assumptions).',
            'DESIGN.md 4/C11'),
    'C12': ('Hypothesis-generated operation sequences + every-operation x every-cell sweep from an independently transcribed operation table; round-trip and re-encoding; exhaustive name/opcode bijection',
            'Exploration: parse_expr output (opcode, name, operand values with signedness/width, offsets, nested entry_value blocks to depth 4) equals the generated '
            'sequence for all 174 listed operations in 32 configuration cells with boundary operands and non-minimal LEB128; re-encoding reproduces the bytes; the '
            'name<->opcode maps are checked exhaustively over 0..255.',
            'Trusted: the operation table and encoder in vf/enc/c12_expr.py (transcribed from DWARF v5 table 7.9 + GNU/WASM documents, refereed in development against readelf and llvm-dwarfdump).',
            'DESIGN.md 4/C12'),
    'C13': ('Hypothesis-generated .debug_aranges / .debug_pubnames / .debug_pubtypes sections and multi-unit .debug_info + boundary sweep, own encoders; oracle = brute-force search of the model; exhaustive per-section offset lookup',
            'Exploration: cu_offset_at_addr at every range boundary / gap / extreme address, .entries as a multiset with set headers; the name tables through every accessor of the '
            'mapping interface incl. order and set headers; get_CU_containing at EVERY offset of generated multi-unit sections in several orders (cache population orders), get_CU_at, '
            'interleaved partial iter_CUs, get_DIE_from_lut_entry for names that point at real DIEs.',
            'Trusted: encoders in vf/enc/c13_tables.py (refereed against llvm-dwarfdump and readelf --debug-dump=aranges), vf/enc/dwarf.py. 64-bit-format aranges/name sets are outside the property domain.',
            'DESIGN.md 4/C13'),
    'C14': ('Hypothesis-generated note-extent models + deterministic sweep, own note encoder, embedded as section / segment / both by an independent ELF writer; round-trip against the model',
            'Exploration: every note (owner, type, raw descriptor, offset, padded size), tiling of the extent, section view == segment view, decoded descriptors of '
            'GNU ABI tag / build id / gold version / property lists and CORE NT_PRPSINFO / NT_FILE (per class and uid-width machine set), type-name table switch on ET_CORE, and stab records.',
            'Trusted: the note encoder in vf/checks/c14.py (refereed against readelf -n and llvm-readelf -n), vf/enc/elf.py. 8-byte note alignment and unpadded tails are outside the generated domain.',
            'DESIGN.md 4/C14'),
    'C15': ('Hypothesis-generated version-section models (forward displacement layouts) embedded in ELF files by an independent writer; round-trip against the model',
            'Exploration: verdef/verneed entries and auxiliary chains walked through arbitrary non-contiguous forward vd_next/vd_aux/vda_next/vn_next/vn_aux/vna_next '
            'displacements, names through the linked string table, get_version hits/misses/duplicates/hidden bit, has_indexes memoisation, versym entries paired with '
            'dynsym names; all class/order cells.',
            'Trusted: the record encoders in vf/checks/c15.py (refereed against readelf -V on the sweep files), vf/enc/elf.py.',
            'DESIGN.md 4/C15'),
    'C16': ('exhaustive enumeration of short encodings + Hypothesis random encodings against an independent arithmetic decoder',
            'Exploration: every LEB128 prefix up to 2 (quick) / 3 (thorough) bytes and (thorough) all 2^24 24-bit values are enumerated '
            'completely; longer encodings, fixed-width integers, strings, blocks and initial lengths are covered by boundary sweeps and '
            'seeded random generation. Value and consumed length are compared with a reference decoder written from DWARF v5 7.6/7.4.',
            'Trusted: the reference decoders in vf/enc/leb.py and int.from_bytes; Hypothesis; that struct_parse is the entry point callers use.',
            'DESIGN.md 4/C16'),
    'C17': ('exhaustive enumeration of every (table, name, value) of the library against vendored glibc/LLVM registries and cited supplements, both directions (name->value, reported name for value)',
            'Exploration, exhaustive over the finite domain: all 2,909 (table, name) pairs of the ELF and DWARF tables; name->value against the registries, and the name '
            'the library actually reports for each code (through ELFFile on synthesized files, describe_reloc_type, the DWARF enum adapters and reverse maps) against the '
            'registry names of that code in the same namespace; readelf -rW referees tables the vendored registries do not cover.',
            'Trusted: vendored /usr/include/elf.h (glibc 2.36), LLVM 14 BinaryFormat headers, hand-transcribed supplements with citations (vf/registry/c17_supp.py), readelf 2.40 for V850 only. '
            'Names without any registry counterpart (53) are reported as unreferenced, not verified.',
            'DESIGN.md 4/C17'),
    'C18': ('differential testing against the live GNU readelf (binutils 2.40) under the project\'s own compare_output rules: shipped corpus x options, one synthesized file per description-table entry, Hypothesis-generated ELF files; per-line bucketing',
            'Exploration: 49 corpus files x 21 options; 4,184 synthesized files (one per entry of the ELF and DWARF description tables incl. DW_OP/DW_CFA/register names) under the '
            'matching option; random layouts/symbols/dynamic tags/relocations. Lines where either tool says unknown/unrecognized are outside the envelope and counted. Every '
            'differing line is bucketed by (option, table entry or field).',
            'Trusted: /usr/bin/readelf 2.40 as the deciding oracle (the project pins 2.41: entries 2.40 does not know are skipped and counted; --debug-dump=loc/Ranges on DWARF v5 list '
            'sections are not decided here), test/run_readelf_tests.py compare_output as the equality relation, vf/enc writers. 99 open findings are listed in known_findings.txt.',
            'DESIGN.md 4/C18'),
    'C19': ('fault injection: exhaustive truncations and single-byte substitutions, field-aware single/pair/multi-field boundary corruption of generated and shipped seed files, random bytes, plus an atheris coverage-guided sub-step; oracles: exception type of construction, deterministic work counters for a fixed enumeration battery',
            'Exploration (fault enumeration by construction): ELFFile(bytes) either succeeds or raises ELFError for every truncation length of the small seeds, every {0,0xff,+1,^0x80} '
            'substitution of the first 64 bytes, every single field x 15 boundary values, every pair of constructor-read fields, pairs inside dynamic/note/hash records, and '
            'Hypothesis-drawn 1-4-field corruptions; the header/section/segment/symbol-count/dynamic/note/version battery then runs under a sys.settrace line-event counter and a '
            'byte-counting stream with per-step bounds >= 100x the maximum measured on valid files.',
            'Trusted: the field scanner in vf/checks/c19.py (cross-checked against the writer), the work bounds (line events / bytes delivered / largest single read instead of wall-clock '
            'and RSS), vf/enc/elf.py. Version-section iteration with a corrupt count is observed and counted but not judged.',
            'DESIGN.md 4/C19'),
    'C20': ('Hypothesis-generated build-attribute sections x consumption patterns and .ARM.exidx/.ARM.extab tables, own encoders; exhaustive first-byte / two-byte opcode sweep against an EHABI table-4 disassembler',
            'Exploration: subsections, scoped sub-subsections and attributes (uleb, NTBS, compatibility, nested also-compatible-with) of ARM and RISC-V attribute sections '
            'under 12 consumption patterns (lock-step, list() first, num_*/properties, filters, interleaved stream users); exidx entries (prel31 sign classes, every entry kind, '
            'compact models 0-2 with extra words, generic, corrupt), exact byte-code and its disassembly; all 256 first bytes and every second byte of two-byte opcodes enumerated.',
            'Trusted: encoders and the table-4 disassembler in vf/checks/c20.py (refereed against llvm-readelf -u on 9,345 little-endian entries and readelf -A), vf/enc/elf.py.',
            'DESIGN.md 4/C20'),
}

NOT_YET = {}


# metamorphic relations over HOW the API is used, added after the seeded-change rounds (DESIGN.md 10.2, 10.7); appended to the exploration text
USAGE = {
    'C01': 'another file of a different machine opened meanwhile, pickle / deep copy of the object, BytesIO / minimal / mmap / real-file / gzip-wrapped / tar-member streams, enumerations consumed step by step, a name look-up interrupted by a transient read error and repeated, header tables and sections beyond 2^31 / 2^32 (sparse files), linked tables at section indices >= 0xff00, section names of 4 KiB to 70 000 bytes',
    'C02': 'partially consumed address_offsets generators, rejected payloads asked again on the same section object, placement beyond 2^31 / 2^32 / 2^62 (sparse files), MiB-sized maximally redundant compressed payloads, six stream kinds (incl. a gzip wrapper whose fileno() belongs to the compressed file and a tar member), decoding in a child interpreter under the C locale without UTF-8 mode, real (also compressed) sections tested against real segments, zlib streams of every window size',
    'C03': 'results modified by the caller before the lookup is repeated, tables at section indices >= 0xff00, far tables and st_name >= 2^31 (sparse files), GNU hash bucket groups in permuted order, step-by-step walks, the first use of a fresh table object (abandoned walk / look-ups first / look-ups inside the first walk), padded symbol entries (sh_entsize > Elf_Sym), hash sections larger than their table, a look-up interrupted by a transient read error and repeated, six stream kinds, names on which the SysV hash carries out of bit 31 (constructed), a neighbouring symbol table (empty at the same offset, or of other symbols over the same string table) asked before or after the real one, long names with multi-byte characters across read boundaries',
    'C04': 'ref_addr followed from .debug_types units into .debug_info, by-signature look-ups and entry walks interrupted by a transient read error and repeated, units of 16 MiB, 64-bit section offsets beyond 4 GiB (sparse streams), step-by-step walks with moved streams, minimal streams, children listed first on a fresh object (compile and type units), index forms behind DW_FORM_indirect, references followed on an object with a sparse unit cache (last unit fetched first)',
    'C05': 'header_length covering bytes behind the tables, a decode interrupted by a transient read error and repeated, unit version drawn independently of the table version, supplementary object file attached, programs at .debug_line offsets beyond 2^32 (sparse streams), the same offsets designating different strings in .debug_str and .debug_line_str',
    'C06': 'augmentation data longer than the known fields, pc-relative pointers given by their encoded displacement (0 included), extended-length CIEs in .eh_frame, DW_EH_PE_omit as declared LSDA encoding, version-4 CIEs in .eh_frame',
    'C07': 'enumerations consumed step by step while other lists are fetched, unit address size different from the file pointer size, both section generations in one file (colliding offsets), every kind of v5 unit (type and split units included) as owner of list attributes, GNU Fission skeleton units (DW_AT_GNU_ranges_base / _addr_base on the top entry), list attributes behind DW_FORM_indirect',
    'C08': 'table walks consumed step by step with other stream users in between, tables first met by a walk that is given up, padded symbol entries, ELFCLASS32 containers of x86-64 / MIPS RELA / LoongArch, the relocation switch followed through a .gnu_debuglink, symbols of every type but STT_FUNC, relocation targets stored SHF_COMPRESSED, dynamic tables on the first byte of a PT_LOAD that touches the previous one in memory only',
    'C09': 'deep-copied file objects, OS ABI drawn independently of the machine, step-by-step walks, GNU hash bucket groups in permuted order, the first use of a fresh view object (abandoned tag / symbol walk, look-ups first), GNU chains of 70..260 words, a look-up interrupted by a transient read error and repeated, by-name queries in drawn order with names borne by several symbols, strings of 4 KiB to 20 000 bytes',
    'C10': 'fixtures with a unit of unsupported version (failed queries inside the history) and with a duplicated type-unit signature, null-entry lookups, 14 kinds of suspended generators, histories on minimal streams, fixtures whose units of different version / offset size / address size share one abbreviation table, rejected calls (offsets inside entries or headers, unknown signatures, indices out of range) as operations of a history, the optional type argument of get_section and single dynamic entries by number as operations, the DWARF view of truth and history objects made only when first needed',
    'C11': 'stray .gnu_debuglink in unstripped containers, on-disk layouts reached through load_from_path via real path and directory symlink, supplementary links composed with compressed / .zdebug containers of the main and the supplementary file, rejected containers asked again on the same objects, zlib streams of every window size and strategy, a debug link leading to a file that carries the supplementary link',
    'C12': 'the same bytes parsed by the sibling configuration first, results modified by the caller before the same bytes are parsed again, hundreds of rejections inside nested blocks before a well-formed parse',
    'C13': 'units beyond 4 GiB on sparse streams, unused bytes behind the terminator of name-table and address-range sets, several zero-length tuples side by side inside one range',
    'C14': 'step-by-step walks with other stream users in between, six stream kinds, alignment fields (sh_addralign / p_align) drawn independently of the 4-byte padding, AArch64 processor-specific properties of 8..24 bytes, non-zero padding bytes behind names and descriptors, named property numbers with data of other sizes than 4',
    'C15': 'several consumers of one section object at once (also as its first use), displacements >= 2^31 in a sparse file, entries sharing the head of an auxiliary chain, OS ABI and file type drawn, twin files with and without a .dynamic section, six stream kinds, padded entries in the symbol table a version section links to',
    'C16': 'string lengths around every power of two up to 128 KiB, declared block lengths at the sign / width boundaries of each prefix, LEB128 encodings padded to 21..1000 groups, NUL-terminated strings parsed with a text encoding (value, bytes consumed, following field), 64-bit initial lengths whose value looks like a 32-bit escape',
    'C17': 'the whole enumeration repeated in a child interpreter under -O -bb and the C locale (what a code is called must not depend on the interpreter mode), tables compared with their import-time copies after files of every machine / OS ABI were read, processor-specific section types probed in every class / byte-order cell',
    'C18': 'every ordered pair of location-changing CFA instructions, empty sections on segment edges, nested expressions with unit-referring operations in a first and a second unit, interpreter extents with bytes behind the terminator, dumps of sections that share a name, units of both DWARF formats in one file, several CIEs with FDEs in every relative position, two relocation sections over two symbol tables that number different symbols alike',
    'C19': 'extended-numbering escape triples, an allocation-peak bound (tracemalloc) for allocations that bypass the stream, the constructor on real files, memory maps, minimal, gzip-wrapped and tar-member streams, type-filtered enumerations and absent-name look-ups in the battery, header-0 counts (escapes on) in the allocation family, address space of every worker capped',
    'C20': 'a companion file of the opposite byte order opened and queried while the first is in use, handler tables split over .ARM.extab and a second section of another name, a no-bits section overlapping the tables, drawn index-section names, ARM e_flags (BE8 / LE8 / float ABI) varying with the case, attribute strings of 200 to 4 100 bytes with multi-byte characters across read boundaries',
}


def build():
    checks = []
    for pid in sorted(CHECKS):
        tech, text, note, ref = CHECKS[pid]
        if pid in USAGE:
            text = text + ' Also explored (usage-pattern relations whose oracle is the plain answer): ' + USAGE[pid] + '.'
        checks.append({
            'property_id': pid,
            'quick_cmd': 'PYTHONHASHSEED=0 PYTHONDONTWRITEBYTECODE=1 %s -m vf.run %s --tier quick' % (PY, pid),
            'thorough_cmd': 'PYTHONHASHSEED=0 PYTHONDONTWRITEBYTECODE=1 %s -m vf.run %s --tier thorough' % (PY, pid),
            'evidence_file': '/verif/evidence/%s.json' % pid,
            'replay_cmd_template': 'PYTHONHASHSEED=0 PYTHONDONTWRITEBYTECODE=1 %s -m vf.run %s --replay {path}' % (PY, pid),
            'engine': 'vf',
            'level_claimed': {'category': 'exploration', 'text': text, 'design_ref': ref},
            'level_note': note,
            'technique': tech,
        })
    props = [json.loads(l)['id'] for l in open(os.path.join(VERIF, 'properties.jsonl'))]
    na = [{'property_id': p, 'reason': NOT_YET.get(p, 'check not built yet in this round (design in DESIGN.md section 4); not claimed until it runs')}
          for p in props if p not in CHECKS]
    m = {
        'version': 1,
        'setup_cmd': '%s -m vf.setup' % PY,
        'hooks': {
            'guard': 'PYELFTOOLS_VERIF',
            'enable': 'no instrumentation is needed: checks import /repo working tree directly (sys.path) in a fresh interpreter',
            'baseline_off_cmd': 'cd /repo && /venv/bin/python -m pytest -ra -q -p no:cacheprovider --timeout=900 --continue-on-collection-errors',
            'source_commits': [],
            'add_only': True,
        },
        'engines': [{'name': 'vf', 'path': '/verif/vf', 'serves_properties': sorted(CHECKS),
                     'kind_free_text': 'Hypothesis property-based testing + deterministic sweeps / exhaustive enumeration, '
                                       'sharded over 16 processes; independent encoders and reference interpreters as oracles'}],
        'checks': checks,
        'not_applicable': na,
        'notes': 'exit 0 held / 1 VIOLATION / 2 HARNESS-ERROR. Known findings: /verif/known_findings.txt. Replays: /verif/replay/<id>/.',
    }
    with open(os.path.join(VERIF, 'MANIFEST.json'), 'w') as f:
        json.dump(m, f, indent=1)
    return m


if __name__ == '__main__':
    m = build()
    try:
        import jsonschema
        jsonschema.validate(m, json.load(open('/root/.vp/MANIFEST.schema.json')))
        print('manifest valid;', len(m['checks']), 'checks')
    except ImportError:
        print('manifest written (jsonschema not available to validate);', len(m['checks']), 'checks')
